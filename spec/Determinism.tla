----------------------------- MODULE Determinism -----------------------------
(* R-spec for C17 (trace specification).  A case is ONE request (source, position,
   project files) answered in several fresh interpreter processes with different
   PYTHONHASHSEED values and different amounts of prior allocation, and twice
   within each process:
      [id, runs |-> <<digest, ...>>, alts |-> <<binding sites in the order listed>>, nalts]
   Clauses: AllEqual (every run produced the same canonical text, order included),
   SourceOrder (alternative definitions are listed in source order: binding sites
   are numbered in source order by the generator).                              *)
EXTENDS Naturals, Sequences, FiniteSets, TLC, Json, IOUtils
Cases == JsonDeserialize(IOEnv.VERIF_CASES)
NC == Len(Cases)
VARIABLES cid, done
AllEqual(c) == \A i \in 1..Len(Cases[c].runs) : Cases[c].runs[i] = Cases[c].runs[1]
SourceOrder(c) == \A k \in 1..Len(Cases[c].alts) :
                    \A i \in 1..(Len(Cases[c].alts[k]) - 1) : Cases[c].alts[k][i] < Cases[c].alts[k][i + 1]
Fail(c, clause) == PrintT(ToJson(<<"VFAIL", "C17", Cases[c].id, clause, 0>>))
Init == cid \in 1..NC /\ done = FALSE
Judge == /\ ~done /\ done' = TRUE /\ UNCHANGED cid
         /\ LET a == AllEqual(cid)  s == SourceOrder(cid) IN
            /\ (IF a THEN TRUE ELSE Fail(cid, "AllEqual"))
            /\ (IF s THEN TRUE ELSE Fail(cid, "SourceOrder"))
            /\ TLCSet(1, TLCGet(1) \cup {cid})
            /\ (IF a /\ s THEN TRUE ELSE TLCSet(2, TLCGet(2) \cup {cid}))
Spec == Init /\ [][Judge]_<<cid, done>>
ASSUME TLCSet(1, {}) /\ TLCSet(2, {})
Post == /\ PrintT(ToJson(<<"VDONE", "C17", NC, Cardinality(TLCGet(1)), Cardinality(TLCGet(2))>>))
        /\ Cardinality(TLCGet(1)) = NC
=============================================================================
