--------------------------- MODULE CompletionCheck ---------------------------
EXTENDS Completion, IOUtils
Cases == JsonDeserialize(IOEnv.VERIF_CASES)
NC == Len(Cases)
VARIABLES cid, done
Fail(c, clause, d) == PrintT(ToJson(<<"VFAIL", "C12", Cases[c].id, clause, d>>))
Init == cid \in 1..NC /\ done = FALSE
Judge ==
  /\ ~done /\ done' = TRUE /\ UNCHANGED <<cid, cx>>
  /\ LET r == Cases[cid]
         p == r.prefix = PrefixOf(r.left)
         s == StrictlySorted(r.proposals)
         ident == \A i \in 1..Len(r.proposals) : IsIdentifier(r.proposals[i])
         nomark == \A i \in 1..Len(r.proposals) : ~Contains(r.proposals[i], Marker)
         tr == ~r.transparent \/ r.proposals = r.expected IN
     /\ (IF p THEN TRUE ELSE Fail(cid, "Prefix", <<r.prefix, PrefixOf(r.left)>>))
     /\ (IF s THEN TRUE ELSE Fail(cid, "Sorted", 0))
     /\ (IF ident THEN TRUE ELSE Fail(cid, "Identifiers", 0))
     /\ (IF nomark THEN TRUE ELSE Fail(cid, "NoMarker", 0))
     /\ (IF tr THEN TRUE ELSE Fail(cid, "Transparent", <<Len(r.proposals), Len(r.expected)>>))
     /\ TLCSet(1, TLCGet(1) \cup {cid})
     /\ (IF p /\ s /\ ident /\ nomark /\ tr THEN TRUE ELSE TLCSet(2, TLCGet(2) \cup {cid}))
Spec == Init /\ cx = [pre |-> "bol", run |-> 0, fol |-> "eol", ctx |-> "code"] /\ [][Judge]_<<cid, done, cx>>
ASSUME TLCSet(1, {}) /\ TLCSet(2, {})
Post == /\ PrintT(ToJson(<<"VDONE", "C12", NC, Cardinality(TLCGet(1)), Cardinality(TLCGet(2))>>))
        /\ Cardinality(TLCGet(1)) = NC
=============================================================================
