------------------------------ MODULE LintRules ------------------------------
(* R-spec for C10: the decision table of the unused-name diagnostics.

   A row is one binding of an identifier that is never read anywhere in the file:
     kind   how it is bound
     scope  in what kind of scope the binding statement sits
     shape  the identifier: "x", "_x" (leading underscore), "__x__", "x_" (trailing underscore: an ordinary name)
   Expected(row) in {"W01", "W02", "none"}:
     W01  a local of a function or lambda (any binding kind inside a function body, including
          its parameters, imports and nested def/class), not starting with an underscore, and not
          a parameter of a method (a function defined directly in a class body);
     W02  an import at module or class level, not starting with an underscore, not from
          __future__, not a star import;
     none everything else (module / class level non-import bindings, names bound under a
          `global` declaration, underscore names).
   Rows on which the statement of the property is ambiguous are not generated (parameters of a
   lambda written directly in a class body; a comprehension variable at module / class level
   belongs to the comprehension's own scope and is "none").
   TLC enumerates every legal row; the driver renders each into a module, lints it with the real
   supp and ships [row, reports] back; LintCheck.tla requires: the binding is reported with the
   expected code exactly once at its own position with its own name, and nothing else in the
   module is reported as unused.                                              *)
EXTENDS Naturals, Sequences, FiniteSets, TLC, Json

Kinds == {"assign", "annassign", "walrus", "tuple", "starred", "for", "with", "except", "comp",
          "param", "kwonly", "vararg", "kwarg", "posonly", "def", "class",
          "import", "fromimport", "dotted", "aliased", "star", "future", "globaldecl",
          "nonlocaldecl",                  \* x = 0 in the enclosing function, `nonlocal x; x = 1` in the nested one: two bindings of one local of the outer function
          "nonlocalread",                  \* the same, and the enclosing function reads x after calling the nested one: nothing is unused
          "dupimport", "aliasclash",       \* two bindings of one identifier in one statement: import x, x.sub / from os import x as y, y
          "fromalias", "fromalias_us",     \* from os import path as NAME / from os import _exit as NAME (the shape rule looks at NAME)
          "fortuple", "withtuple", "comptuple", "nestedtuple",   \* the identifier inside a tuple target
          "compnested",                    \* the variable of a comprehension written inside another comprehension
          "fromalias_ml",
          "futuremodule"}                  \* import __future__ as NAME: an ordinary import of the module, not a from-__future__ import                  \* from os import (path <newline> as NAME): the alias on a later line than the imported name
Scopes == {"module", "class", "function", "method", "nested", "lambda", "inmethod", "lambdainmethod",   \* inmethod: a def nested in a method
           "classinfunction"}                                                                          \* the body of a class written inside a function: class level
Shapes == {"x", "_x", "__x__", "x_"}          \* x_: a trailing underscore is an ordinary name
ParamKinds == {"param", "kwonly", "vararg", "kwarg", "posonly"}
ImportKinds == {"import", "fromimport", "dotted", "aliased", "dupimport", "aliasclash", "fromalias", "fromalias_us", "fromalias_ml", "futuremodule"}
FunctionLike == {"function", "method", "nested", "lambda", "inmethod", "lambdainmethod"}

Legal(k, s, sh) ==
  /\ (k \in ParamKinds => s \in {"function", "method", "nested", "lambda", "inmethod", "lambdainmethod"})      \* parameters belong to the function itself
  /\ (s \in {"lambda", "lambdainmethod"} => k \in ParamKinds \cup {"walrus", "comp", "compnested"})                  \* a lambda body is one expression
  /\ (k \in ParamKinds \cup {"globaldecl", "nonlocaldecl", "nonlocalread"} => s # "classinfunction")
  /\ (k = "future" => s = "module" /\ sh = "x")                                   \* from __future__ import only at module level
  /\ (k = "star" => s = "module" /\ sh = "x")
  /\ (k = "globaldecl" => s \in {"function", "method", "nested", "inmethod"})
  /\ (k \in {"nonlocaldecl", "nonlocalread"} => s \in {"nested", "inmethod"})                         \* needs an enclosing function that owns the name
  /\ (k \in {"dotted", "dupimport", "aliasclash"} => sh = "x")
  /\ (k = "posonly" => s # "lambda" \/ TRUE)

Rows == {r \in [kind : Kinds, scope : Scopes, shape : Shapes] : Legal(r.kind, r.scope, r.shape)}

Underscore(sh) == sh \in {"_x", "__x__"}
Expected(r) ==
  IF Underscore(r.shape) THEN "none"
  ELSE IF r.kind \in {"globaldecl", "nonlocalread"} THEN "none"
  ELSE IF r.scope \in FunctionLike THEN
       (IF r.kind \in ParamKinds /\ r.scope = "method" THEN "none" ELSE "W01")
  ELSE \* module or class level
       (IF r.kind \in ImportKinds THEN "W02" ELSE "none")

VARIABLE row
GenInit == row \in Rows
GenSpec == GenInit /\ [][UNCHANGED row]_row
GenEmit == PrintT(ToJson([row |-> row, expected |-> Expected(row)]))
\* sanity of the table itself
ASSUME \A r \in Rows : Expected(r) \in {"W01", "W02", "none"}
ASSUME \A r \in Rows : (Expected(r) = "W02") => (r.scope \in {"module", "class", "classinfunction"} /\ r.kind \in ImportKinds)
ASSUME \E r \in Rows : Expected(r) = "W01" /\ r.kind = "import"
=============================================================================
