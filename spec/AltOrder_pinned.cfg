SPECIFICATION Spec
CONSTANTS
  Sites = {0, 1, 2, 3}
  Fixed = FALSE
INVARIANT Deterministic
INVARIANT NoDuplicates
INVARIANT Complete
CHECK_DEADLOCK FALSE
