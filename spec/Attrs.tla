-------------------------------- MODULE Attrs --------------------------------
(* R + M spec for C06: attribute lookup on instances and classes of a generated hierarchy.

   A hierarchy has classes 1..N in definition order;
     bases[i]   sequence of earlier classes (no ancestor reachable twice: the property's domain), <<>> = object
     own[i]     attribute names defined in the class body (as methods)
     selfs[i]   attribute names assigned through `self` in a method of class i
   R (Python's semantics):
     MRO(i)       the linearisation; without repeated ancestors C3 coincides with the depth-first, left-to-right preorder
     Sites(i, a)  where go-to-definition on  K_i().a  may land: every instance-assignment site of a along the MRO if there is
                  one, otherwise the class-body definition in the FIRST class of the MRO that has it
     Proposals(i) every source-defined attribute of an instance of K_i
   M (supp, name.py ClassObject._attrs / InstanceValue._attrs - dict.update order):
     ClassTab(i)  own class body over the bases' tables, leftmost base strongest
     InstTab(i)   Fixed = FALSE (pinned): class table, then the complete INSTANCE tables of the bases (which contain the bases' class
                  tables and so overwrite the class's own overrides), then the own self-assignments;
                  Fixed = TRUE (repaired): class table, then only the instance-level entries of the bases, then the own ones
   Refinement: Land(i, a) \in Sites(i, a) and the keys of InstTab(i) \supseteq Proposals(i).  TLC shows it violated for the pinned
   tables (an overridden method lands in the base class) and valid for the repaired ones; every hierarchy is also a test vector. *)
EXTENDS Naturals, Sequences, FiniteSets, TLC, Json

CONSTANTS N, Fixed
Attr == {"p", "q"}
SelfAttr == {"p", "r"}
Classes == 1..N

RECURSIVE Anc(_, _)
Anc(B, i) == {i} \cup UNION {Anc(B, B[i][k]) : k \in 1..Len(B[i])}
NoRepeat(B) == \A i \in Classes : \A k, l \in 1..Len(B[i]) : k # l => Anc(B, B[i][k]) \cap Anc(B, B[i][l]) = {}
BaseSeqs(i) == {<<>>} \cup {<<j>> : j \in 1..(i - 1)} \cup {<<j, k>> : j \in 1..(i - 1), k \in 1..(i - 1)}
Hierarchies == {h \in [bases : {B \in [Classes -> UNION {BaseSeqs(i) : i \in Classes}] : (\A i \in Classes : B[i] \in BaseSeqs(i)) /\ NoRepeat(B)},
                       own : [Classes -> SUBSET Attr], selfs : [Classes -> SUBSET SelfAttr]] : TRUE}

RECURSIVE MRO(_, _), Concat(_, _, _)
Concat(h, bs, k) == IF k > Len(bs) THEN <<>> ELSE MRO(h, bs[k]) \o Concat(h, bs, k + 1)
MRO(h, i) == <<i>> \o Concat(h, h.bases[i], 1)
InMRO(h, i) == {MRO(h, i)[k] : k \in 1..Len(MRO(h, i))}

ClassSite(c, a) == <<c, "class", a>>
InstSite(c, a) == <<c, "inst", a>>
FirstWith(h, i, a) == LET m == MRO(h, i)  ks == {k \in 1..Len(m) : a \in h.own[m[k]]} IN
                      IF ks = {} THEN 0 ELSE m[CHOOSE k \in ks : \A l \in ks : k <= l]
Sites(h, i, a) == LET inst == {InstSite(c, a) : c \in {c \in InMRO(h, i) : a \in h.selfs[c]}} IN
                  IF inst # {} THEN inst
                  ELSE IF FirstWith(h, i, a) = 0 THEN {} ELSE {ClassSite(FirstWith(h, i, a), a)}
ClassSites(h, i, a) == IF FirstWith(h, i, a) = 0 THEN {} ELSE {ClassSite(FirstWith(h, i, a), a)}     \* lookup on the class itself
Proposals(h, i) == UNION {h.own[c] \cup h.selfs[c] : c \in InMRO(h, i)}

\* ---- supp's tables: functions attr -> site, built by dict.update (later update wins) ----
Upd(t, u) == [a \in DOMAIN t \cup DOMAIN u |-> IF a \in DOMAIN u THEN u[a] ELSE t[a]]
Empty == [a \in {} |-> 0]
RECURSIVE ClassTab(_, _), FoldC(_, _, _, _), InstTab(_, _), FoldI(_, _, _, _), InstOnly(_, _), FoldO(_, _, _, _)
FoldC(h, bs, k, acc) == IF k = 0 THEN acc ELSE FoldC(h, bs, k - 1, Upd(acc, ClassTab(h, bs[k])))          \* reversed(bases)
ClassTab(h, i) == Upd(FoldC(h, h.bases[i], Len(h.bases[i]), Empty), [a \in h.own[i] |-> ClassSite(i, a)])
OwnInst(h, i) == [a \in h.selfs[i] |-> InstSite(i, a)]
FoldI(h, bs, k, acc) == IF k = 0 THEN acc ELSE FoldI(h, bs, k - 1, Upd(acc, InstTab(h, bs[k])))
FoldO(h, bs, k, acc) == IF k = 0 THEN acc ELSE FoldO(h, bs, k - 1, Upd(acc, InstOnly(h, bs[k])))
InstOnly(h, i) == Upd(FoldO(h, h.bases[i], Len(h.bases[i]), Empty), OwnInst(h, i))
InstTab(h, i) == IF Fixed THEN Upd(ClassTab(h, i), InstOnly(h, i))
                 ELSE Upd(FoldI(h, h.bases[i], Len(h.bases[i]), ClassTab(h, i)), OwnInst(h, i))

VARIABLE hier
Init == hier \in Hierarchies
Spec == Init /\ [][UNCHANGED hier]_hier
LandsRight == \A i \in Classes : \A a \in Attr \cup SelfAttr :
                 (Sites(hier, i, a) # {}) => (a \in DOMAIN InstTab(hier, i) /\ InstTab(hier, i)[a] \in Sites(hier, i, a))
ProposesAll == \A i \in Classes : Proposals(hier, i) \subseteq DOMAIN InstTab(hier, i)
ClassLandsRight == \A i \in Classes : \A a \in Attr : (ClassSites(hier, i, a) # {}) => ClassTab(hier, i)[a] \in ClassSites(hier, i, a)
AttrSeq == <<"p", "q", "r">>
Emit == PrintT(ToJson([h |-> hier,
                       mro |-> [i \in Classes |-> MRO(hier, i)],
                       sites |-> [i \in Classes |-> [k \in 1..3 |-> Sites(hier, i, AttrSeq[k])]],
                       csites |-> [i \in Classes |-> [k \in 1..3 |-> ClassSites(hier, i, AttrSeq[k])]],
                       props |-> [i \in Classes |-> Proposals(hier, i)]]))
=============================================================================
