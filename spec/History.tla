------------------------------- MODULE History -------------------------------
(* R-spec for C04: what supp reports for a position is a function of the source,
   the position and the project files only - not of the queries made before.

   Generator part (HistoryGen.cfg): the query orders TLC enumerates for a module with
   n read sites, n <= MaxN: every permutation of the sites, and every sequence WITH
   repetition of length <= MaxRep (repeated identical queries, a site asked again
   after others).  The driver replays each order on ONE analysis object of the real
   code and asks every site of a fresh analysis object that has answered nothing else.

   Judge part (History.cfg): a case is [id, fresh |-> <<answer per site>>,
   hist |-> << <<site, answer>>, ... >>]; answers are canonical texts of (visible
   names, alternative definitions of the read name as a set, possibly-undefined flag,
   diagnostics at the position).  One trace action consumes one query;
   clause Independent: the answer equals the fresh answer of that site.       *)
EXTENDS Naturals, Sequences, FiniteSets, TLC, Json, IOUtils

CONSTANTS MaxN, MaxRep
Perms(n) == {s \in [1..n -> 1..n] : \A i, j \in 1..n : i # j => s[i] # s[j]}
Reps(n) == UNION {[1..m -> 1..n] : m \in 1..MaxRep}
Orders(n) == Perms(n) \cup Reps(n)

VARIABLES gn, gorder
GenInit == gn \in 1..MaxN /\ gorder \in Orders(gn)
GenSpec == GenInit /\ [][UNCHANGED <<gn, gorder>>]_<<gn, gorder>>
GenEmit == PrintT(ToJson([n |-> gn, order |-> gorder]))
=============================================================================
