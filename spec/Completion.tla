------------------------------ MODULE Completion ------------------------------
(* R-spec for C12 (completion contract) + generator of cursor contexts.

   Generator (CompletionGen.cfg): a cursor context is
       pre  the character class immediately left of the identifier run
       run  the number of identifier characters between it and the cursor (0..3)
       abc  the alphabet of those characters: ASCII letters, underscore and digits, non-ASCII letters
       fol  the character class right of the cursor
       ctx  the syntactic context
   TLC enumerates every combination; the driver instantiates those for which it has a
   template whose text parses with the cursor mark inserted.

   Judge (CompletionCheck.tla): a case is one real assist() call
       [id, left |-> codes of the line up to the cursor, prefix |-> codes, proposals |-> << <<codes>>, ... >>,
        kind ("name" | "attr" | "import" | "other"), transparent (does the transparency clause apply),
        expected |-> << <<codes>>, ... >> (sorted: names visible / attributes of expr in the analysis of the UNMARKED source)]
   Clauses: Prefix (= longest run of identifier characters left of the cursor), Sorted (strictly increasing in
   code-point order, hence duplicate-free), Identifiers, NoMarker, Transparent.          *)
EXTENDS Naturals, Sequences, FiniteSets, TLC, Json

Pres == {"bol", "space", "lparen", "lbracket", "lbrace", "comma", "equals", "plus", "colon", "dot", "semicolon", "star", "at", "minus", "not"}
Fols == {"eol", "space", "ident", "rparen", "comma", "dot"}
Ctxs == {"code", "call", "subscript", "dict", "slice", "annotation", "kwarg", "string", "comment", "attrstore", "import", "fromimport", "fstring",
         "pkgattr",     \* an attribute of a package after `import a.b.c` (three levels)
         "fromline"}    \* a name on a continuation line that starts with the keyword from (raise X \ from y; yield from)
Abcs == {"ascii", "under9", "nonascii"}
Contexts == [pre : Pres, run : 0..3, abc : Abcs, fol : Fols, ctx : Ctxs]

VARIABLE cx
GenInit == cx \in Contexts
GenSpec == GenInit /\ [][UNCHANGED cx]_cx
GenEmit == PrintT(ToJson(cx))

\* ---- the reference definitions used by the judge -------------------------------------------------
IsIdChar(c) == (c >= 48 /\ c <= 57) \/ (c >= 65 /\ c <= 90) \/ (c >= 97 /\ c <= 122) \/ c = 95 \/ c >= 128
RECURSIVE RunLen(_, _)
RunLen(s, i) == IF i = 0 \/ ~IsIdChar(s[i]) THEN 0 ELSE 1 + RunLen(s, i - 1)
PrefixOf(left) == LET n == RunLen(left, Len(left)) IN SubSeq(left, Len(left) - n + 1, Len(left))
RECURSIVE Less(_, _)
Less(a, b) == IF a = <<>> THEN b # <<>>
              ELSE IF b = <<>> THEN FALSE
              ELSE IF a[1] # b[1] THEN a[1] < b[1]
              ELSE Less(Tail(a), Tail(b))
StrictlySorted(ps) == \A i \in 1..(Len(ps) - 1) : Less(ps[i], ps[i + 1])
Marker == <<95, 95, 115, 117, 112, 112, 95, 109, 97, 114, 107, 95, 95>>     \* "__supp_mark__"
Contains(s, m) == \E i \in 1..(Len(s) - Len(m) + 1) : SubSeq(s, i, i + Len(m) - 1) = m
IsIdentifier(s) == s # <<>> /\ ~(s[1] >= 48 /\ s[1] <= 57) /\ \A i \in 1..Len(s) : IsIdChar(s[i])
=============================================================================
