------------------------------ MODULE Startup ------------------------------
(* M-spec (mechanism level) of the client start-up protocol of supp/remote.py:
   Environment.prepare / _threaded_run / _run / run / _call / close, one action
   per *source line that touches shared state* (lock, prepare_thread, conn, the
   process launch).  Lines that only touch locals are merged into the preceding
   labelled step, exactly as the line scheduler of vlib/sched.py does, so that a
   TLC behaviour is a schedule (sequence of process ids) the real code can be
   driven along, one labelled line per step.

   label  source line (matched by text, not by number)
   p1/px  prepare:  with self.prepare_lock:          (enter / exit)
   p2               if self.prepare_thread:
   p3               if hasattr(self, 'conn'):
   p4               self.prepare_thread = Thread(target=self._threaded_run)
   p5               self.prepare_thread.start()
   s2     starter:  self._run()
   s3               self.prepare_thread = None       (finally; then the thread ends)
   u2     _run:     self.proc = Popen(args, env=env)  (launch)
   u3               self.conn = Client(addr)          (connect; may fail in the fault variant)
   c2     _call:    self.conn                         (AttributeError => run())
   r1/rx  run:      with self.prepare_lock:
   r2               thread = self.prepare_thread      (single read since the fix of defect 25)
   r3               thread.join()
   r4               if not hasattr(self, 'conn'):
   c4/cx  _call:    with self.call_lock:              (enter / exit; CallLock = TRUE: the repaired code)
   c5               self.conn.send_bytes(...)
   c6               ... = loads(self.conn.recv_bytes())
   k1     close:    self.conn
   k2               self.conn.send_bytes(dumps(('close', (), {})))
   k3               self.conn.close()
   k4               del self.conn

   JoinRace = TRUE re-creates the pre-fix code (two reads of prepare_thread in
   run(): truth test at r2, attribute access at r3) and is used to show that the
   model finds the counterexample that motivated the fix.
   CallLock = FALSE re-creates _call() without the lock around send / receive:
   replies are not addressed, so a caller can take the reply to another caller's
   request (invariant OwnReply violated); with the lock every reply is its caller's. *)
EXTENDS Naturals, Sequences, FiniteSets, TLC

CONSTANTS Threads,      \* e.g. {"t1","t2","t3"}
          OpSeqs,       \* set of op sequences a thread may run, e.g. {<<"prepare","call">>, ...}
          MaxFail,      \* number of connection failures that may be injected (0 = none)
          JoinRace,     \* TRUE: pre-fix run() (defect 25)
          CallLock,     \* TRUE: send + receive of a call under call_lock (FALSE: the code before that repair)
          Symmetric     \* TRUE: only non-decreasing assignments of OpSeqs to Threads

VARIABLES ops,      \* [Threads -> OpSeqs], chosen in Init
          pc,       \* [Procs -> label]
          opi,      \* [Threads -> index of the op in progress]
          lock,     \* "" or the holder (prepare_lock)
          clock,    \* "" or the holder of call_lock
          pt,       \* prepare_thread is not None
          conn,     \* hasattr(self, 'conn')
          connOpen, \* the connection object the attribute refers to is open
          srvUp,    \* the server at the other end of that connection is still serving
          pending,  \* the callers whose requests were sent over that connection and are not yet answered, oldest first
          launches, \* launches in the current session epoch
          live,     \* number of server processes alive (launched, not told to close)
          fails,    \* injected connection failures so far
          loc,      \* [Threads -> value of the local `thread` read at r2]
          exc,      \* set of <<thread, op index, kind, tainted>> exceptions delivered to callers
          started,  \* [Threads -> the op in progress has executed its first labelled line]
          tainted,  \* [Threads -> the op in progress overlapped an effective close() of another thread]
          raced,    \* some op has ever been tainted: session accounting is unconstrained from then on
          answered  \* [Threads -> number of calls answered]

vars == <<ops, pc, opi, lock, clock, pt, conn, connOpen, srvUp, pending, launches, live, fails, loc, exc, started, tainted, raced, answered>>

S == "s"                       \* the starter pseudo-process
Procs == Threads \cup {S}

Code(op) == CASE op = "prepare" -> 1 [] op = "call" -> 2 [] OTHER -> 3
Rank(s) == Len(s) * 1000 + (IF Len(s) >= 1 THEN Code(s[1]) * 100 ELSE 0)
                         + (IF Len(s) >= 2 THEN Code(s[2]) * 10 ELSE 0)
                         + (IF Len(s) >= 3 THEN Code(s[3]) ELSE 0)
ThreadOrder == CHOOSE f \in [Threads -> 1..Cardinality(Threads)] : \A a, b \in Threads : a # b => f[a] # f[b]

First(op) == CASE op = "prepare" -> "p1" [] op = "call" -> "c2" [] OTHER -> "k1"

Init == /\ ops \in [Threads -> OpSeqs]
        /\ (Symmetric => \A a, b \in Threads : ThreadOrder[a] < ThreadOrder[b] => Rank(ops[a]) <= Rank(ops[b]))
        /\ pc = [p \in Procs |-> IF p = S THEN "idle" ELSE First(ops[p][1])]
        /\ opi = [t \in Threads |-> 1]
        /\ lock = "" /\ clock = "" /\ pt = FALSE /\ conn = FALSE /\ connOpen = FALSE /\ srvUp = FALSE /\ pending = <<>>
        /\ launches = 0 /\ live = 0 /\ fails = 0
        /\ loc = [t \in Threads |-> FALSE]
        /\ exc = {}
        /\ started = [t \in Threads |-> FALSE]
        /\ tainted = [t \in Threads |-> FALSE]
        /\ raced = FALSE
        /\ answered = [t \in Threads |-> 0]

CurOp(t) == IF pc[t] = "done" THEN "none" ELSE ops[t][opi[t]]

\* thread t executes the first labelled line of its op: the op begins.  An effective close
\* taints every op it overlaps, and is tainted by another close in progress.
Begin(t, effectiveClose) ==
  /\ started' = [started EXCEPT ![t] = TRUE]
  /\ tainted' = [u \in Threads |->
                   IF u = t THEN \E v \in Threads \ {t} : started[v] /\ CurOp(v) = "close"
                   ELSE tainted[u] \/ (effectiveClose /\ started[u])]
  /\ raced' = (raced \/ \E u \in Threads : tainted'[u])
\* thread t finishes its current op and parks at the first labelled line of the next one
Finish(t) ==
  LET last == opi[t] = Len(ops[t]) IN
  /\ pc' = [pc EXCEPT ![t] = IF last THEN "done" ELSE First(ops[t][opi[t] + 1])]
  /\ opi' = [opi EXCEPT ![t] = IF last THEN @ ELSE @ + 1]
  /\ started' = [started EXCEPT ![t] = FALSE]
  /\ tainted' = [tainted EXCEPT ![t] = FALSE]
  /\ UNCHANGED raced
Goto(p, l) == pc' = [pc EXCEPT ![p] = l]
Raise(t, kind) == exc' = exc \cup {<<t, opi[t], kind, tainted[t]>>}
NoFinish == UNCHANGED <<opi, started, tainted, raced>>

---------------------------------------------------------------------------
\* prepare()
P1_(t)== /\ pc[t] = "p1" /\ lock = "" /\ lock' = t /\ Goto(t, "p2") /\ Begin(t, FALSE) /\ UNCHANGED opi
         /\ UNCHANGED <<ops, pt, conn, connOpen, srvUp, pending, launches, live, fails, loc, exc, answered>>
P2_(t)== /\ pc[t] = "p2" /\ Goto(t, IF pt THEN "px" ELSE "p3") /\ NoFinish
         /\ UNCHANGED <<ops, lock, pt, conn, connOpen, srvUp, pending, launches, live, fails, loc, exc, answered>>
P3_(t)== /\ pc[t] = "p3" /\ Goto(t, IF conn THEN "px" ELSE "p4") /\ NoFinish
         /\ UNCHANGED <<ops, lock, pt, conn, connOpen, srvUp, pending, launches, live, fails, loc, exc, answered>>
P4_(t)== /\ pc[t] = "p4" /\ pt' = TRUE /\ Goto(t, "p5") /\ NoFinish
         /\ UNCHANGED <<ops, lock, conn, connOpen, srvUp, pending, launches, live, fails, loc, exc, answered>>
P5_(t)== /\ pc[t] = "p5" /\ pc[S] = "idle"
         /\ pc' = [pc EXCEPT ![t] = "px", ![S] = "s2"] /\ NoFinish
         /\ UNCHANGED <<ops, lock, pt, conn, connOpen, srvUp, pending, launches, live, fails, loc, exc, answered>>
PX_(t)== /\ pc[t] = "px" /\ lock' = "" /\ Finish(t)
         /\ UNCHANGED <<ops, pt, conn, connOpen, srvUp, pending, launches, live, fails, loc, exc, answered>>

\* _run(), executed by the starter or inline by a caller
U2_(p)== /\ pc[p] = "u2" /\ launches' = launches + 1 /\ live' = live + 1 /\ Goto(p, "u3") /\ NoFinish
         /\ UNCHANGED <<ops, lock, pt, conn, connOpen, srvUp, pending, fails, loc, exc, answered>>
U3ok_(p)== /\ pc[p] = "u3" /\ conn' = TRUE /\ connOpen' = TRUE /\ srvUp' = TRUE /\ pending' = <<>>
           /\ Goto(p, IF p = S THEN "s3" ELSE "rx") /\ NoFinish
           /\ UNCHANGED <<ops, lock, pt, launches, live, fails, loc, exc, answered>>
\* fault variant: the connection cannot be established (virtual time runs past the 5 s limit);
\* the launched process never served anybody and is reaped by the fake: it is not a session
U3fail_(p)== /\ pc[p] = "u3" /\ fails < MaxFail /\ fails' = fails + 1
             /\ launches' = launches - 1 /\ live' = live - 1
             /\ IF p = S
                THEN /\ Goto(p, "s3") /\ exc' = exc /\ lock' = lock /\ NoFinish
                ELSE /\ Goto(p, "rxe") /\ exc' = exc /\ lock' = lock /\ NoFinish   \* propagates through the with block
             /\ UNCHANGED <<ops, pt, conn, connOpen, srvUp, pending, loc, answered>>
RXE_(t)== /\ pc[t] = "rxe" /\ lock' = "" /\ Raise(t, "launch") /\ Finish(t)
          /\ UNCHANGED <<ops, pt, conn, connOpen, srvUp, pending, launches, live, fails, loc, answered>>

\* starter thread
S2_== /\ pc[S] = "s2" /\ Goto(S, "u2") /\ NoFinish
      /\ UNCHANGED <<ops, lock, pt, conn, connOpen, srvUp, pending, launches, live, fails, loc, exc, answered>>
S3_== /\ pc[S] = "s3" /\ pt' = FALSE /\ Goto(S, "idle") /\ NoFinish
      /\ UNCHANGED <<ops, lock, conn, connOpen, srvUp, pending, launches, live, fails, loc, exc, answered>>

\* _call()
CallEntry == IF CallLock THEN "c4" ELSE "c5"
\* leaving the send / receive block: with the lock the `with` line is passed once more (release), then the op ends
LeaveCall(t) == IF CallLock THEN Goto(t, "cx") /\ NoFinish ELSE Finish(t)
C2_(t)== /\ pc[t] = "c2" /\ Goto(t, IF conn THEN CallEntry ELSE "r1") /\ Begin(t, FALSE) /\ UNCHANGED opi
         /\ UNCHANGED <<ops, lock, pt, conn, connOpen, srvUp, pending, launches, live, fails, loc, exc, answered>>
R1_(t)== /\ pc[t] = "r1" /\ lock = "" /\ lock' = t /\ Goto(t, "r2") /\ NoFinish
         /\ UNCHANGED <<ops, pt, conn, connOpen, srvUp, pending, launches, live, fails, loc, exc, answered>>
R2_(t)== /\ pc[t] = "r2" /\ loc' = [loc EXCEPT ![t] = pt]
         /\ Goto(t, IF pt THEN "r3" ELSE "r4") /\ NoFinish
         /\ UNCHANGED <<ops, lock, pt, conn, connOpen, srvUp, pending, launches, live, fails, exc, answered>>
R3_(t)== /\ pc[t] = "r3"
         /\ IF JoinRace /\ ~pt
            THEN /\ Raise(t, "AttributeError-join") /\ lock' = "" /\ Finish(t)   \* None.join()
            ELSE /\ pc[S] = "idle"                                             \* join() returns when the starter has ended
                 /\ Goto(t, "r4") /\ NoFinish /\ UNCHANGED <<exc, lock>>
         /\ UNCHANGED <<ops, pt, conn, connOpen, srvUp, pending, launches, live, fails, loc, answered>>
R4_(t)== /\ pc[t] = "r4" /\ Goto(t, IF conn THEN "rx" ELSE "u2") /\ NoFinish
         /\ UNCHANGED <<ops, lock, pt, conn, connOpen, srvUp, pending, launches, live, fails, loc, exc, answered>>
RX_(t)== /\ pc[t] = "rx" /\ lock' = "" /\ Goto(t, CallEntry) /\ NoFinish
         /\ UNCHANGED <<ops, pt, conn, connOpen, srvUp, pending, launches, live, fails, loc, exc, answered>>
C5_(t)== /\ pc[t] = "c5"
         /\ IF ~conn THEN Raise(t, "AttributeError-conn") /\ LeaveCall(t) /\ UNCHANGED pending
            ELSE IF ~connOpen THEN Raise(t, "OSError-closed") /\ LeaveCall(t) /\ UNCHANGED pending
            ELSE IF ~srvUp THEN Raise(t, "BrokenPipe") /\ LeaveCall(t) /\ UNCHANGED pending
            ELSE Goto(t, "c6") /\ NoFinish /\ pending' = Append(pending, t) /\ UNCHANGED exc
         /\ UNCHANGED <<ops, lock, pt, conn, connOpen, srvUp, launches, live, fails, loc, answered>>
\* recv: a reply is there for whoever asks first (replies are not addressed: concurrent callers
\* on one connection can take each other's reply); with nothing pending recv blocks for ever
\* unless the server has gone (EOFError)
C6_(t)== /\ pc[t] = "c6"
         /\ IF ~conn THEN Raise(t, "AttributeError-conn") /\ UNCHANGED <<answered, pending>>
            ELSE IF ~connOpen THEN Raise(t, "OSError-closed") /\ UNCHANGED <<answered, pending>>
            ELSE IF pending # <<>>
                 THEN /\ answered' = [answered EXCEPT ![t] = @ + 1] /\ pending' = Tail(pending)
                      \* the oldest pending request may be another caller's: its reply is taken (recorded like an exception,
                      \* with the taint of the op, so that the invariants below see it)
                      /\ exc' = IF Head(pending) = t THEN exc ELSE exc \cup {<<t, opi[t], "reply-of-another-call", tainted[t]>>}
            ELSE /\ ~srvUp /\ Raise(t, "EOFError") /\ UNCHANGED <<answered, pending>>
         /\ LeaveCall(t)
         /\ UNCHANGED <<ops, lock, pt, conn, connOpen, srvUp, launches, live, fails, loc>>

\* close()
K1_(t)== /\ pc[t] = "k1"
         /\ IF conn THEN Goto(t, "k2") /\ Begin(t, TRUE) /\ UNCHANGED opi ELSE Finish(t)
         /\ UNCHANGED <<ops, lock, pt, conn, connOpen, srvUp, pending, launches, live, fails, loc, exc, answered>>
K2_(t)== /\ pc[t] = "k2"
         /\ IF ~conn THEN Raise(t, "AttributeError-conn") /\ Finish(t) /\ UNCHANGED <<live, launches, srvUp>>
            ELSE IF ~connOpen THEN Raise(t, "OSError-closed") /\ Finish(t) /\ UNCHANGED <<live, launches, srvUp>>
            ELSE IF ~srvUp THEN Raise(t, "BrokenPipe") /\ Finish(t) /\ UNCHANGED <<live, launches, srvUp>>
            ELSE /\ live' = live - 1 /\ launches' = 0 /\ srvUp' = FALSE   \* the server leaves its loop on 'close': the epoch ends
                 /\ Goto(t, "k3") /\ NoFinish /\ UNCHANGED exc
         /\ UNCHANGED <<ops, lock, pt, conn, connOpen, pending, fails, loc, answered>>
K3_(t)== /\ pc[t] = "k3"
         /\ IF ~conn THEN Raise(t, "AttributeError-conn") /\ Finish(t) /\ UNCHANGED <<connOpen, srvUp, live, launches>>
            ELSE /\ connOpen' = FALSE /\ Goto(t, "k4") /\ NoFinish /\ UNCHANGED exc
                 \* closing the client end makes a server that is still up see EOF and exit
                 /\ srvUp' = FALSE
                 /\ live' = IF srvUp THEN live - 1 ELSE live
                 /\ launches' = IF srvUp THEN 0 ELSE launches
         /\ UNCHANGED <<ops, lock, pt, conn, pending, fails, loc, answered>>
K4_(t)== /\ pc[t] = "k4"
         /\ IF ~conn THEN Raise(t, "AttributeError-conn") /\ UNCHANGED conn
            ELSE conn' = FALSE /\ UNCHANGED exc
         /\ Finish(t)
         /\ UNCHANGED <<ops, lock, pt, connOpen, srvUp, pending, launches, live, fails, loc, answered>>

\* the actions above do not touch call_lock
P1(t) == P1_(t) /\ UNCHANGED clock
P2(t) == P2_(t) /\ UNCHANGED clock
P3(t) == P3_(t) /\ UNCHANGED clock
P4(t) == P4_(t) /\ UNCHANGED clock
P5(t) == P5_(t) /\ UNCHANGED clock
PX(t) == PX_(t) /\ UNCHANGED clock
C2(t) == C2_(t) /\ UNCHANGED clock
R1(t) == R1_(t) /\ UNCHANGED clock
R2(t) == R2_(t) /\ UNCHANGED clock
R3(t) == R3_(t) /\ UNCHANGED clock
R4(t) == R4_(t) /\ UNCHANGED clock
RX(t) == RX_(t) /\ UNCHANGED clock
C5(t) == C5_(t) /\ UNCHANGED clock
C6(t) == C6_(t) /\ UNCHANGED clock
K1(t) == K1_(t) /\ UNCHANGED clock
K2(t) == K2_(t) /\ UNCHANGED clock
K3(t) == K3_(t) /\ UNCHANGED clock
K4(t) == K4_(t) /\ UNCHANGED clock
RXE(t) == RXE_(t) /\ UNCHANGED clock
U2(p) == U2_(p) /\ UNCHANGED clock
U3ok(p) == U3ok_(p) /\ UNCHANGED clock
U3fail(p) == U3fail_(p) /\ UNCHANGED clock
S2 == S2_ /\ UNCHANGED clock
S3 == S3_ /\ UNCHANGED clock

\* call_lock
C4(t) == /\ pc[t] = "c4" /\ clock = "" /\ clock' = t /\ Goto(t, "c5") /\ NoFinish
         /\ UNCHANGED <<ops, lock, pt, conn, connOpen, srvUp, pending, launches, live, fails, loc, exc, answered>>
CX(t) == /\ pc[t] = "cx" /\ clock' = "" /\ Finish(t)
         /\ UNCHANGED <<ops, lock, pt, conn, connOpen, srvUp, pending, launches, live, fails, loc, exc, answered>>

Step(t) == \/ P1(t) \/ P2(t) \/ P3(t) \/ P4(t) \/ P5(t) \/ PX(t)
           \/ C2(t) \/ R1(t) \/ R2(t) \/ R3(t) \/ R4(t) \/ RX(t) \/ C4(t) \/ C5(t) \/ C6(t) \/ CX(t)
           \/ K1(t) \/ K2(t) \/ K3(t) \/ K4(t)
           \/ U2(t) \/ U3ok(t) \/ U3fail(t) \/ RXE(t)
StarterStep == S2 \/ S3 \/ U2(S) \/ U3ok(S) \/ U3fail(S)
Next == (\E t \in Threads : Step(t)) \/ StarterStep
Spec == Init /\ [][Next]_vars
FairSpec == Spec /\ \A p \in Procs : WF_vars(IF p = S THEN StarterStep ELSE Step(p))

---------------------------------------------------------------------------
\* Requirement-level invariants (C16) stated on the mechanism

AllDone == \A t \in Threads : pc[t] = "done"
NoCloseOps == \A t \in Threads : \A i \in 1..Len(ops[t]) : ops[t][i] # "close"

\* exactly one server per session epoch (failed launches were reaped and do not count)
OneLaunchPerEpoch == ~raced => (launches <= 1 /\ live <= 1 /\ live >= 0)
\* with no close anywhere: never a second launch at all
OneLaunchEver == NoCloseOps => launches + fails <= 1 + MaxFail

\* no caller sees an exception caused by the handshake: every exception belongs to an op that
\* overlapped a close(), or reports an injected launch failure
NoHandshakeException == \A e \in exc : e[3] \in {"launch", "reply-of-another-call"} \/ e[4]
NoExceptionWithoutClose == NoCloseOps => \A e \in exc : e[3] \in {"launch", "reply-of-another-call"}
PrepareNeverRaises == \A e \in exc : ops[e[1]][e[2]] # "prepare"

\* every call is answered (when nothing is closed and nothing fails)
CallsOf(t) == Cardinality({i \in 1..Len(ops[t]) : ops[t][i] = "call"})
Answered == (AllDone /\ NoCloseOps /\ MaxFail = 0) => \A t \in Threads : answered[t] = CallsOf(t)

\* a call that is answered is answered with the reply to its own request (unless it raced a close)
OwnReply == \A e \in exc : e[3] # "reply-of-another-call" \/ e[4]

\* structural sanity of the mechanism
LockSane == lock \in Threads \cup {""} /\ clock \in Threads \cup {""}
StarterOwnsPt == (pc[S] \in {"s2", "u2", "u3"}) => pt
NoDeadlock == raced \/ AllDone \/ ENABLED Next
Termination == <>AllDone
=============================================================================
