---------------------------- MODULE MsgPackGen ----------------------------
(* Generator of C14 test vectors from the reference model: one initial state per
   vector, printed as JSON.  A vector is [kind, enc (segments), shape (expected
   decoded value), refuse (value outside the data model)].  The driver
   concretises opaque runs, calls the real loads/dumps and ships observations back
   to MsgPackCheck.                                                            *)
EXTENDS MsgPack, Json

\* growing +1 / shrinking -1 on big-endian magnitudes
RECURSIVE Inc(_)
Inc(bs) == IF bs = <<>> THEN <<1>>
           ELSE LET n == Len(bs) IN
                IF bs[n] < 255 THEN [bs EXCEPT ![n] = @ + 1] ELSE Append(Inc(SubSeq(bs, 1, n - 1)), 0)
RECURSIVE Dcr(_)
Dcr(bs) == LET n == Len(bs) IN          \* bs > 0
           IF bs[n] > 0 THEN StripZeros([bs EXCEPT ![n] = @ - 1]) ELSE StripZeros(Append(Dcr(SubSeq(bs, 1, n - 1)), 255))
RECURSIVE Shift(_, _)
Shift(bs, d) == IF d = 0 THEN bs ELSE IF d > 0 THEN Shift(Inc(bs), d - 1) ELSE Shift(Dcr(bs), d + 1)
Pow2(k) == <<2 ^ (k % 8)>> \o [i \in 1..(k \div 8) |-> 0]

Ks == {5, 7, 8, 15, 16, 31, 32, 63, 64}
Mags == {Shift(Pow2(k), d) : k \in Ks, d \in -3..3} \cup {<<>>, <<1>>, <<2>>}
InRange(neg, mag) == IF neg = 0 THEN Len(mag) <= 8
                     ELSE Len(mag) < 8 \/ (Len(mag) = 8 /\ (mag[1] < 128 \/ mag = Pow2(63)))

IntVectors ==
  UNION {IF InRange(neg, mag)
         THEN {[kind |-> "int", enc |-> e, shape |-> IntShape(neg, mag), refuse |-> FALSE] : e \in IntEncodings(neg, mag)}
         ELSE {[kind |-> "int", enc |-> <<>>, shape |-> IntShape(neg, mag), refuse |-> TRUE]}
         : neg \in {0, 1}, mag \in Mags}

Lens == {0, 1, 2} \cup UNION {{b - 2, b - 1, b, b + 1, b + 2} : b \in {15, 16, 31, 32, 255, 256, 65535, 65536}}
\* the identity of a run's content is its length here; the driver fills it with a pattern
StrVectors == UNION {{[kind |-> "str", enc |-> e, shape |-> [t |-> "str", n |-> n, ty |-> 0, segs |-> RunOf(n, n)], refuse |-> FALSE]
                      : e \in StrEncodings(n, n)} : n \in Lens}
BinVectors == UNION {{[kind |-> "bin", enc |-> e, shape |-> [t |-> "bin", n |-> n, ty |-> 0, segs |-> RunOf(n, n)], refuse |-> FALSE]
                      : e \in BinEncodings(n, n)} : n \in Lens}
ExtTypes == {0, 1, 127, 128, 255}      \* type bytes: 0, 1, 127, -128, -1 (timestamp)
ExtVectors == UNION {{[kind |-> "ext", enc |-> e, shape |-> [t |-> "ext", n |-> n, ty |-> ty, segs |-> RunOf(n, n)], refuse |-> FALSE]
                      : e \in ExtEncodings(ty, n, n)} : n \in Lens \cup {4, 8}, ty \in ExtTypes}
\* containers: header only; the driver appends n items (arrays: nil; maps: distinct integer keys -> nil)
ArrVectors == UNION {{[kind |-> "arr", enc |-> h, shape |-> [t |-> "arr", n |-> n], refuse |-> FALSE] : h \in ArrHeaders(n)} : n \in Lens}
MapVectors == UNION {{[kind |-> "map", enc |-> h, shape |-> [t |-> "map", n |-> n], refuse |-> FALSE] : h \in MapHeaders(n)} : n \in Lens}

\* every first byte with the shortest complete continuation
FirstByte(b) ==
  LET f == Family(b)  fw == FieldWidth(f)  zeros == [k \in 1..fw |-> Byte(0)] IN
  CASE f = "fixstr" -> <<Byte(b)>> \o RunOf(b - 160, b - 160)
    [] f = "fixarray" -> <<Byte(b)>> \o [k \in 1..(b - 144) |-> Byte(192)]
    [] f = "fixmap" -> <<Byte(b)>> \o [k \in 1..(2 * (b - 128)) |-> IF k % 2 = 1 THEN Byte((k - 1) \div 2) ELSE Byte(192)]
    [] f \in {"fixext1", "fixext2", "fixext4", "fixext8", "fixext16"} -> <<Byte(b), Byte(5)>> \o RunOf(FixExtLen(f), FixExtLen(f))
    [] f \in {"ext8", "ext16", "ext32"} -> <<Byte(b)>> \o zeros \o <<Byte(5)>>
    [] OTHER -> <<Byte(b)>> \o zeros
FirstByteVectors ==
  {[kind |-> "first", enc |-> FirstByte(b),
    shape |-> (IF Family(b) = "reserved" THEN [t |-> "reserved"] ELSE Decode(FirstByte(b)).v), refuse |-> FALSE] : b \in 0..255}

Vectors == IntVectors \cup StrVectors \cup BinVectors \cup ExtVectors \cup ArrVectors \cup MapVectors \cup FirstByteVectors

\* model-checking the reference itself
ASSUME Partition
SelfCheck(v) ==
  \/ v.refuse
  \/ v.kind \in {"arr", "map"}
  \/ (v.kind = "first" /\ Family(v.enc[1][1]) = "reserved" /\ Decode(v.enc) = Err("reserved"))
  \/ /\ Decode(v.enc).ok /\ Decode(v.enc).v = v.shape                     \* Decode o Encode = id
     /\ \A p \in 0..(Width(v.enc) - 1) : IF p > 40 /\ p < Width(v.enc) - 3 THEN TRUE
                                          ELSE Decode(Trunc(v.enc, p)) = Err("insufficient")

VARIABLE vec
Init == vec \in Vectors
Next == UNCHANGED vec
Spec == Init /\ [][Next]_vec
RefOK == SelfCheck(vec)
Emit == PrintT(ToJson(vec))
=============================================================================
