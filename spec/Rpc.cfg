SPECIFICATION Spec
CONSTANTS
  MaxLen = 4
  AllowFatal = FALSE
INVARIANT Paired
INVARIANT Transparent
INVARIANT Alive
INVARIANT NoHang
INVARIANT TypeOK
CHECK_DEADLOCK FALSE
