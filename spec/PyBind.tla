------------------------------- MODULE PyBind -------------------------------
(* R-spec: CPython's name-binding semantics for one body (a function body, a
   module body or a class body) as a small-step transition system.  It is the
   reference the properties C01-C03 appeal to ("any execution of it by CPython",
   "reaches that read on some execution path"), validated two-way against the
   real interpreter (PyBindEnum.tla + vlib/gen/oracle.py): every execution TLC
   enumerates is replayed in CPython with the same decisions and must give the
   same observations, and every CPython execution must be a TLC behaviour.

   A program is a sequence of nodes [k, c, n, s, kinds, hs] (node 1 is the root):
     seq       c = children, executed in order
     bind      name n := binding site s                 (every assignment form, for/with/except
               targets, walrus, def/class/import names reduce to reads followed by binds)
     read      observation point: read id s of name n
     if        c = <<test, body, orelse>>               one decision
     while     c = <<test, body, orelse>>               the test is re-evaluated before every trip; trips 0..2
     for       c = <<iter, target, body, orelse>>       iter evaluated once; trips 0..2
     try       c = <<body, orelse, final>>, hs = handlers
     handler   kinds = caught kinds (<<>> = all), n/s = `as` name (unbound again at the end), c = <<body, type>>
               type = 0 or the reads of the clause's type expression: evaluated when an exception reaches the clause,
               whether it then matches or not (clauses are tried in order)
     mayraise  one decision: no exception or one of `kinds`
     raise     kind s;   return / break / continue
   `flavour` of the body: "func" (names bound anywhere in the body are locals: reading them
   unbound is UnboundLocalError, a NameError), "module"/"class" (an unbound name falls back to
   env0: globals and builtins).
   Lenient = TRUE is the control-flow reading of "path": a failed read records UNBOUND and
   execution continues (an over-approximation of the paths); Lenient = FALSE is CPython.   *)
EXTENDS Integers, Sequences, FiniteSets, TLC, Json, IOUtils

VARIABLES pid, lenient, k, env, pend, dec, obs,
          crash       \* an uncaught NameError is unwinding (strict reading only): the execution is doomed
pvars == <<pid, lenient, k, env, pend, dec, obs, crash>>

\* the programs under analysis: sequence of [id, nodes, flavour, env0 (record name -> site / -1 builtin), locals, ...]
\* (a definition, not a CONSTANT: TLC evaluates a constant-level definition once, a cfg substitution on every use)
Programs == JsonDeserialize(IOEnv.VERIF_CASES)
NP == Len(Programs)
N(i) == Programs[pid].nodes[i]
NONE == [t |-> "none", v |-> 0]
NAMEERR == 0                \* exception kind 0 = NameError: never caught by the generated handlers
UNBOUND == 0
BUILTIN == -1

Frame(n, ph, aux) == [n |-> n, ph |-> ph, aux |-> aux]
Top == k[Len(k)]
Pop == SubSeq(k, 1, Len(k) - 1)
SetTop(f) == [k EXCEPT ![Len(k)] = f]
PushOn(s, n) == IF n = 0 THEN s ELSE Append(s, Frame(n, 0, NONE))

InSeq(x, s) == \E i \in 1..Len(s) : s[i] = x
Env0(n) == IF n \in DOMAIN Programs[pid].env0 THEN Programs[pid].env0[n] ELSE UNBOUND
IsLocal(n) == InSeq(n, Programs[pid].locals)
\* value of name n now
Get(n) == IF n \in DOMAIN env /\ env[n] # UNBOUND THEN env[n]
          ELSE IF Programs[pid].flavour = "func" /\ IsLocal(n) THEN UNBOUND       \* UnboundLocalError
          ELSE Env0(n)
Set(n, v) == [x \in DOMAIN env \cup {n} |-> IF x = n THEN v ELSE env[x]]

\* (a NameError is dispatched like any exception - type expressions on its way are evaluated - but no generated clause catches it)
Catches(h, kind) == LET hk == N(h).kinds IN kind # NAMEERR /\ (Len(hk) = 0 \/ \E i \in 1..Len(hk) : hk[i] = kind)
HasType(h) == Len(N(h).c) >= 2 /\ N(h).c[2] # 0
\* the next clause, from index i on, where dispatch of an exception of this kind stops: a clause whose type expression
\* has reads to evaluate, or a clause that catches it;  0 = none
NextStop(hs, kind, i) ==
  LET idx == {j \in i..Len(hs) : HasType(hs[j]) \/ Catches(hs[j], kind)} IN
  IF idx = {} THEN 0 ELSE CHOOSE j \in idx : \A j2 \in idx : j <= j2

PInit == /\ pid \in 1..NP
         /\ lenient \in {FALSE, TRUE}
         /\ k = << Frame(1, 0, NONE) >>
         /\ env = [x \in {} |-> 0]
         /\ pend = NONE
         /\ dec = <<>>
         /\ obs = <<>>
         /\ crash = FALSE

Normal ==
  /\ pend.t = "none" /\ k # <<>>
  /\ LET f == Top  nd == N(f.n) IN
     CASE nd.k = "seq" ->
            /\ k' = IF f.ph < Len(nd.c)
                    THEN PushOn(SetTop(Frame(f.n, f.ph + 1, f.aux)), nd.c[f.ph + 1])
                    ELSE Pop
            /\ UNCHANGED <<env, pend, dec, obs>>
       [] nd.k = "bind" ->
            /\ env' = Set(nd.n, nd.s) /\ k' = Pop /\ UNCHANGED <<pend, dec, obs>>
       [] nd.k = "read" ->
            /\ obs' = Append(obs, <<nd.s, Get(nd.n)>>)
            /\ pend' = IF Get(nd.n) = UNBOUND /\ ~lenient THEN [t |-> "exc", v |-> NAMEERR] ELSE NONE
            /\ crash' = (crash \/ (Get(nd.n) = UNBOUND /\ ~lenient))
            /\ k' = Pop /\ UNCHANGED <<env, dec>>
       [] nd.k = "if" ->        \* c = <<test, body, orelse>>
            IF f.ph = 0
            THEN /\ k' = PushOn(SetTop(Frame(f.n, 1, f.aux)), nd.c[1])
                 /\ UNCHANGED <<env, pend, dec, obs>>
            ELSE \E b \in {0, 1} :
                   /\ dec' = Append(dec, b)
                   /\ k' = PushOn(Pop, nd.c[b + 2])
                   /\ UNCHANGED <<env, pend, obs>>
       [] nd.k = "while" ->     \* aux.v = trips so far
            IF f.ph = 0
            THEN /\ k' = PushOn(SetTop(Frame(f.n, 1, f.aux)), nd.c[1])
                 /\ UNCHANGED <<env, pend, dec, obs>>
            ELSE \/ /\ f.aux.v < 2
                    /\ dec' = Append(dec, 1)
                    /\ k' = PushOn(SetTop(Frame(f.n, 0, [t |-> "loop", v |-> f.aux.v + 1])), nd.c[2])
                    /\ UNCHANGED <<env, pend, obs>>
                 \/ /\ dec' = Append(dec, 0)
                    /\ k' = PushOn(Pop, nd.c[3])
                    /\ UNCHANGED <<env, pend, obs>>
       [] nd.k = "for" ->
            IF f.ph = 0
            THEN /\ k' = PushOn(SetTop(Frame(f.n, 1, f.aux)), nd.c[1])
                 /\ UNCHANGED <<env, pend, dec, obs>>
            ELSE \/ /\ f.aux.v < 2
                    /\ dec' = Append(dec, 1)
                    /\ k' = PushOn(PushOn(SetTop(Frame(f.n, 1, [t |-> "loop", v |-> f.aux.v + 1])), nd.c[3]), nd.c[2])
                    /\ UNCHANGED <<env, pend, obs>>
                 \/ /\ dec' = Append(dec, 0)
                    /\ k' = PushOn(Pop, nd.c[4])
                    /\ UNCHANGED <<env, pend, obs>>
       [] nd.k = "try" ->       \* phases: 0 start, 1 body running, 2 orelse running, 3 handler running, 4 finally running,
                                \* 10+j the type expression of clause j evaluated (aux = the exception being dispatched)
            /\ IF f.ph >= 10
               THEN LET j == f.ph - 10
                        j2 == NextStop(nd.hs, f.aux.v, j + 1) IN
                    IF Catches(nd.hs[j], f.aux.v)
                    THEN k' = PushOn(SetTop(Frame(f.n, 3, NONE)), nd.hs[j]) /\ pend' = NONE
                    ELSE IF j2 = 0
                    THEN k' = SetTop(Frame(f.n, 2, NONE)) /\ pend' = f.aux          \* no clause caught it: on to finally
                    ELSE IF HasType(nd.hs[j2])
                    THEN k' = PushOn(SetTop(Frame(f.n, 10 + j2, f.aux)), N(nd.hs[j2]).c[2]) /\ pend' = NONE
                    ELSE k' = PushOn(SetTop(Frame(f.n, 3, NONE)), nd.hs[j2]) /\ pend' = NONE
               ELSE /\ CASE f.ph = 0 -> k' = PushOn(SetTop(Frame(f.n, 1, NONE)), nd.c[1])
                         [] f.ph = 1 -> k' = PushOn(SetTop(Frame(f.n, 2, NONE)), nd.c[2])
                         [] f.ph \in {2, 3} -> k' = PushOn(SetTop(Frame(f.n, 4, NONE)), nd.c[3])
                         [] f.ph = 4 -> k' = Pop
                    /\ pend' = IF f.ph = 4 THEN f.aux ELSE NONE
            /\ UNCHANGED <<env, dec, obs>>
       [] nd.k = "handler" ->
            IF f.ph = 0
            THEN /\ env' = IF nd.n = "" THEN env ELSE Set(nd.n, nd.s)
                 /\ k' = PushOn(SetTop(Frame(f.n, 1, NONE)), nd.c[1])
                 /\ UNCHANGED <<pend, dec, obs>>
            ELSE /\ env' = IF nd.n = "" THEN env ELSE Set(nd.n, UNBOUND)
                 /\ k' = Pop /\ UNCHANGED <<pend, dec, obs>>
       [] nd.k = "mayraise" ->
            \E j \in 0..Len(nd.kinds) :
              /\ dec' = Append(dec, j)
              /\ pend' = IF j = 0 THEN NONE ELSE [t |-> "exc", v |-> nd.kinds[j]]
              /\ k' = Pop /\ UNCHANGED <<env, obs>>
       [] nd.k = "raise" ->
            /\ pend' = [t |-> "exc", v |-> nd.s] /\ k' = Pop /\ UNCHANGED <<env, dec, obs>>
       [] nd.k \in {"return", "break", "continue"} ->
            /\ pend' = [t |-> nd.k, v |-> 0] /\ k' = Pop /\ UNCHANGED <<env, dec, obs>>
  /\ (N(Top.n).k # "read" => UNCHANGED crash)
  /\ UNCHANGED <<pid, lenient>>

Unwind ==
  /\ pend.t # "none" /\ k # <<>>
  /\ LET f == Top  nd == N(f.n) IN
     CASE nd.k = "try" /\ f.ph = 1 /\ pend.t = "exc"
                       /\ NextStop(nd.hs, pend.v, 1) # 0 ->
            LET j == NextStop(nd.hs, pend.v, 1) IN
            /\ k' = IF HasType(nd.hs[j]) THEN PushOn(SetTop(Frame(f.n, 10 + j, pend)), N(nd.hs[j]).c[2])
                                          ELSE PushOn(SetTop(Frame(f.n, 3, NONE)), nd.hs[j])
            /\ pend' = NONE /\ UNCHANGED env
       [] nd.k = "try" /\ (f.ph \in {1, 2, 3} \/ f.ph >= 10) ->      \* run finally with the jump saved
            IF nd.c[3] = 0
            THEN k' = Pop /\ UNCHANGED <<pend, env>>
            ELSE /\ k' = PushOn(SetTop(Frame(f.n, 4, pend)), nd.c[3])
                 /\ pend' = NONE /\ UNCHANGED env
       [] nd.k = "handler" /\ f.ph = 1 ->
            /\ env' = IF nd.n = "" THEN env ELSE Set(nd.n, UNBOUND)
            /\ k' = Pop /\ UNCHANGED pend
       [] nd.k \in {"while", "for"} /\ f.aux.t = "loop" /\ pend.t = "break" ->
            /\ k' = Pop /\ pend' = NONE /\ UNCHANGED env
       [] nd.k \in {"while", "for"} /\ f.aux.t = "loop" /\ pend.t = "continue" ->
            /\ k' = k /\ pend' = NONE /\ UNCHANGED env
       [] OTHER -> k' = Pop /\ UNCHANGED <<pend, env>>
  /\ UNCHANGED <<pid, lenient, dec, obs, crash>>

Terminated == k = <<>>
PNext == Normal \/ Unwind
=============================================================================
