-------------------------------- MODULE Memo --------------------------------
(* M-spec for C04: supp's region tables and their memoisation (scope.py: Flow.names / parent_names / _memo /
   _get_names / _get_parent_names, LoopFlow.names, SourceScope._resolving / _frames / note_loops), for ONE identifier x
   over the region graph of one analysed module.

   A graph (extracted from the real analysis object by vlib/drivers/memo_worker.py) has regions
       [own (the region binds x), parents << p >> (p > 0: predecessor region p; p < 0: loop back edge to region -p),
        up (for a region without predecessors: the region whose table the enclosing scope hands down, 0 = none),
        masked (x is a local of the region's scope: the enclosing scope's x is hidden)]
   The value of x in a table is a set of regions that bind it, 0 standing for "possibly undefined"; U is the code's
   UNRESOLVED (a back edge that is being resolved further up the stack contributes nothing).

   The algorithm, exactly as the code does it:
     names(r)   = own ? {r} : parent_names(r)                         (parent_names is evaluated either way)
     parent_names(r): one predecessor: its names; several: every predecessor's names is evaluated (twice: once in the
                  filter `is not UNRESOLVED`, once for the value), unresolved ones are dropped, the rest are united;
                  none: the enclosing scope's table (unless masked)
     loop edge l: note_loops({l}); if l is being resolved: U; else resolve it: push l, names(target), pop
     _memo(r, attr): an entry (hits, reached, value) is reused iff it reached no loop or, for every loop it reached,
                  that loop was unresolved-above at the time (in hits) exactly if it is being resolved now;
                  otherwise compute under a new frame (depth = number of loops being resolved, hits, reached) and store
     note_loops(L): every open frame records L as reached, and as hit when the loop is being resolved below the frame
   Contextual = FALSE models a memo without the context test (whatever was computed first is reused).

   A behaviour is any sequence of top-level queries (region, attribute) - every order, with repetitions - on one
   analysis object; the memo is the only state that survives a query.
   HistoryIndependent (C04 at mechanism level): every answer equals the answer of a fresh analysis.
   TLC checks it for every graph shipped (all query orders); with Contextual = FALSE it is violated (vacuity guard). *)
EXTENDS Integers, Sequences, FiniteSets, TLC, Json, IOUtils

CONSTANT Contextual
Graphs == JsonDeserialize(IOEnv.VERIF_CASES)
NG == Len(Graphs)
VARIABLES gid, memo,
          fresh,      \* the tables of a fresh analysis, computed once per graph
          bad         \* the first query whose answer differed from them (<<>> = none)
mvars == <<gid, memo, fresh, bad>>

Reg(r) == Graphs[gid].regions[r]
NR == Len(Graphs[gid].regions)
U == {-9}
Keys == {<<r, a>> : r \in 1..NR, a \in {"names", "pnames"}}
Range(s) == {s[i] : i \in 1..Len(s)}
MinOf(S) == CHOOSE x \in S : \A y \in S : x <= y

\* 0-based position of loop l in the stack of loops being resolved, or its length
Idx(res, l) == IF l \in Range(res) THEN MinOf({i \in 1..Len(res) : res[i] = l}) - 1 ELSE Len(res)
NoteLoops(st, loops) ==
  [st EXCEPT !.frames = [i \in 1..Len(st.frames) |->
      [depth |-> st.frames[i].depth,
       reached |-> st.frames[i].reached \cup loops,
       hits |-> st.frames[i].hits \cup {l \in loops : st.frames[i].depth > Idx(st.res, l)}]]]
Match(e, res) == ~Contextual \/ e.reached = {} \/ \A l \in e.reached : (l \in e.hits) = (l \in Range(res))

RECURSIVE FlowAttr(_, _, _), Compute(_, _, _), Pred(_, _), Fold(_, _, _, _, _)

FlowAttr(r, a, st) ==
  LET es == st.memo[<<r, a>>]
      hit == {i \in 1..Len(es) : Match(es[i], st.res)} IN
  IF hit # {}
  THEN LET e == es[MinOf(hit)] IN [v |-> e.val, st |-> NoteLoops(st, e.reached)]
  ELSE LET st1 == [st EXCEPT !.frames = Append(@, [depth |-> Len(st.res), hits |-> {}, reached |-> {}])]
           c == Compute(r, a, st1)
           fr == c.st.frames[Len(c.st.frames)]
           st2 == [c.st EXCEPT !.frames = SubSeq(@, 1, Len(@) - 1),
                               !.memo[<<r, a>>] = Append(@, [hits |-> fr.hits, reached |-> fr.reached, val |-> c.v])] IN
       [v |-> c.v, st |-> NoteLoops(st2, fr.reached)]

Pred(p, st) ==            \* the table of one predecessor entry
  IF p > 0 THEN FlowAttr(p, "names", st)
  ELSE LET l == -p
           st1 == NoteLoops(st, {l}) IN
       IF l \in Range(st.res) THEN [v |-> U, st |-> st1]
       ELSE LET q == FlowAttr(l, "names", [st1 EXCEPT !.res = Append(@, l)]) IN
            [v |-> q.v, st |-> [q.st EXCEPT !.res = SubSeq(@, 1, Len(@) - 1)]]

Fold(ps, i, acc, any, st) ==      \* several predecessors: filter evaluation, then value evaluation
  IF i > Len(ps) THEN [v |-> IF any THEN acc ELSE {0}, st |-> st]
  ELSE LET c1 == Pred(ps[i], st) IN
       IF c1.v = U THEN Fold(ps, i + 1, acc, any, c1.st)
       ELSE LET c2 == Pred(ps[i], c1.st) IN
            Fold(ps, i + 1, acc \cup (IF c2.v = U THEN {} ELSE c2.v), TRUE, c2.st)

Compute(r, a, st) ==
  IF a = "names"
  THEN LET p == FlowAttr(r, "pnames", st) IN [v |-> IF Reg(r).own THEN {r} ELSE p.v, st |-> p.st]
  ELSE LET ps == Reg(r).parents IN
       IF Len(ps) = 1 THEN Pred(ps[1], st)
       ELSE IF Len(ps) > 1 THEN Fold(ps, 1, {}, FALSE, st)
       ELSE IF Reg(r).up = 0 THEN [v |-> {0}, st |-> st]
       ELSE LET q == FlowAttr(Reg(r).up, "names", st) IN [v |-> IF Reg(r).masked THEN {0} ELSE q.v, st |-> q.st]

EmptyMemo == [k \in Keys |-> <<>>]
Start(m) == [memo |-> m, res |-> <<>>, frames |-> <<>>]
Fresh(r, a) == FlowAttr(r, a, Start(EmptyMemo)).v

MInit == /\ gid \in 1..NG
         /\ memo = EmptyMemo
         /\ fresh = [k \in Keys |-> Fresh(k[1], k[2])]
         /\ bad = <<>>
Ask(r, a) ==
  LET q == FlowAttr(r, a, Start(memo)) IN
  /\ memo' = q.st.memo
  /\ bad' = IF bad = <<>> /\ q.v # fresh[<<r, a>>] THEN <<r, a, q.v, fresh[<<r, a>>]>> ELSE bad
  /\ UNCHANGED <<gid, fresh>>
MNext == \E k \in Keys : Ask(k[1], k[2])
MSpec == MInit /\ [][MNext]_mvars

HistoryIndependent == bad = <<>>
\* the fresh tables themselves, for the comparison with the real code (printed once per graph)
EmitFresh == (memo = EmptyMemo) => PrintT(ToJson([gid |-> Graphs[gid].id, fresh |-> [r \in 1..NR |-> [n |-> fresh[<<r, "names">>], p |-> fresh[<<r, "pnames">>]]]]))
=============================================================================
