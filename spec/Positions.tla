------------------------------ MODULE Positions ------------------------------
(* R-spec for C11: every position supp reports for a binding points at the identifier.
   A case is one binding occurrence with every report of it:
     [id, name |-> <<codes>>, kind ("name" | "except"),
      reports |-> << [via ("names" | "lint" | "location"), line, col, inrange, text |-> <<codes of line[col : col + len]>>,
                      tok (the token that starts at the position is that identifier / keyword)] >>]
   (text is cut out of the file named in the report, lines split as Python's tokenizer splits them).
   Clauses: InRange, TextAtPosition (the text is the identifier; for `except .. as name` the keyword except),
   AtToken (the token starting at the position is the identifier: the `d` inside `def` is not the identifier d),
   SameAcrossEntryPoints (all reports of one binding carry one position).       *)
EXTENDS Naturals, Sequences, FiniteSets, TLC, Json, IOUtils
Cases == JsonDeserialize(IOEnv.VERIF_CASES)
NC == Len(Cases)
Except == <<101, 120, 99, 101, 112, 116>>      \* "except"
VARIABLES cid, done
Fail(c, clause, d) == PrintT(ToJson(<<"VFAIL", "C11", Cases[c].id, clause, d>>))
Init == cid \in 1..NC /\ done = FALSE
Judge ==
  /\ ~done /\ done' = TRUE /\ UNCHANGED cid
  /\ LET r == Cases[cid]
         want == IF r.kind = "except" THEN Except ELSE r.name
         inr == \A i \in 1..Len(r.reports) : r.reports[i].inrange
         txt == \A i \in 1..Len(r.reports) : r.reports[i].inrange => r.reports[i].text = want
         tok == \A i \in 1..Len(r.reports) : r.reports[i].inrange => r.reports[i].tok
         same == \A i, j \in 1..Len(r.reports) : (r.reports[i].line = r.reports[j].line /\ r.reports[i].col = r.reports[j].col) IN
     /\ (IF inr THEN TRUE ELSE Fail(cid, "InRange", 0))
     /\ (IF txt THEN TRUE ELSE Fail(cid, "TextAtPosition", [i \in 1..Len(r.reports) |-> r.reports[i].via]))
     /\ (IF tok \/ ~txt THEN TRUE ELSE Fail(cid, "AtToken", [i \in 1..Len(r.reports) |-> <<r.reports[i].via, r.reports[i].line, r.reports[i].col>>]))
     /\ (IF same THEN TRUE ELSE Fail(cid, "SameAcrossEntryPoints", [i \in 1..Len(r.reports) |-> <<r.reports[i].via, r.reports[i].line, r.reports[i].col>>]))
     /\ TLCSet(1, TLCGet(1) \cup {cid})
     /\ (IF inr /\ txt /\ tok /\ same THEN TRUE ELSE TLCSet(2, TLCGet(2) \cup {cid}))
Spec == Init /\ [][Judge]_<<cid, done>>
ASSUME TLCSet(1, {}) /\ TLCSet(2, {})
Post == /\ PrintT(ToJson(<<"VDONE", "C11", NC, Cardinality(TLCGet(1)), Cardinality(TLCGet(2))>>))
        /\ Cardinality(TLCGet(1)) = NC
=============================================================================
