------------------------------- MODULE Scoping -------------------------------
(* R-spec for C05: the scope CPython's compiler assigns a name to (symbol-table rules),
   for one identifier x in a chain of nested scopes  s0 (module) > s1 > ... > sd.

   kind[i]  in {"function", "class", "lambda", "comp"}      (i >= 1)
   role[i]  what scope i does with x:
      "none" | "read" | "bind" | "bindread"                       any scope (bind of a lambda = parameter, of a comprehension = target)
      "global" | "globalbind" | "globalread" | "globalbindread"    function scopes: `global x` (+ assignment / read)
      "nonlocal" | "nonlocalbind" | "nonlocalread" | "nonlocalbindread"  function scopes: `nonlocal x`
   The rules (Objects/symtable.c analyze_name / analyze_block):
     * at module level every name is global;
     * `global x` makes x global in that scope and hides any enclosing function's x from the scopes nested in it;
     * `nonlocal x` makes x the variable of the nearest enclosing function-like scope in which x is local (a SyntaxError
       if there is none);
     * a name bound in a scope (and not declared global / nonlocal there) is local to it;
     * otherwise it is free: it belongs to the nearest enclosing FUNCTION-LIKE scope (function, lambda, comprehension) in
       which it is local - class scopes are skipped - unless a `global x` is met on the way; failing that it is global.
   Owner(i) = index of the scope whose variable a read of x in scope i denotes (0 = module / builtins).
   TLC enumerates every legal chain up to MaxDepth (ScopingGen.cfg); the driver renders it, asks CPython's symtable
   (reference validation: Owner must agree) and the real supp; ScopingCheck.tla judges supp's alternatives.        *)
EXTENDS Naturals, Sequences, FiniteSets, TLC, Json

CONSTANT MaxDepth
Kinds == {"function", "class", "lambda", "comp"}
BaseRoles == {"none", "read", "bind", "bindread"}
DeclRoles == {"global", "globalbind", "globalread", "globalbindread", "nonlocal", "nonlocalbind", "nonlocalread", "nonlocalbindread"}

IsFuncLike(k) == k \in {"function", "lambda", "comp"}
DeclGlobal(r) == r \in {"global", "globalbind", "globalread", "globalbindread"}
DeclNonlocal(r) == r \in {"nonlocal", "nonlocalbind", "nonlocalread", "nonlocalbindread"}
Binds(r) == r \in {"bind", "bindread", "globalbind", "globalbindread", "nonlocalbind", "nonlocalbindread"}
Reads(r) == r \in {"read", "bindread", "globalread", "globalbindread", "nonlocalread", "nonlocalbindread"}

\* a chain: kind and role are sequences indexed 1..d; mrole is the module's role ("none" | "bind" | "read" | "bindread")
Local(c, i) == Binds(c.role[i]) /\ ~DeclGlobal(c.role[i]) /\ ~DeclNonlocal(c.role[i])

RECURSIVE FreeOwner(_, _)
FreeOwner(c, j) ==            \* x seen from just inside scope j, looking outwards (j = 0: module)
  IF j = 0 THEN 0
  ELSE IF c.kind[j] = "class" THEN FreeOwner(c, j - 1)
  ELSE IF DeclGlobal(c.role[j]) THEN 0
  ELSE IF Local(c, j) THEN j
  ELSE FreeOwner(c, j - 1)

Owner(c, i) ==
  IF i = 0 THEN 0
  ELSE IF DeclGlobal(c.role[i]) THEN 0
  ELSE IF DeclNonlocal(c.role[i]) THEN FreeOwner(c, i - 1)
  ELSE IF Local(c, i) THEN i
  ELSE FreeOwner(c, i - 1)

\* legality: expression scopes (lambda, comprehension) can only contain expression scopes; declarations only in functions;
\* nonlocal needs an enclosing function-like owner; a parameter / target cannot also be declared
Legal(c) ==
  LET d == Len(c.kind) IN
  /\ \A i \in 1..d : (c.role[i] \in DeclRoles => c.kind[i] = "function")
  /\ \A i \in 2..d : (c.kind[i - 1] \in {"lambda", "comp"} => c.kind[i] \in {"lambda", "comp"})
  /\ \A i \in 1..d : (DeclNonlocal(c.role[i]) => FreeOwner(c, i - 1) # 0)
  /\ \E i \in 1..d : Reads(c.role[i])                   \* something to observe

Chains == {c \in UNION {[kind : [1..d -> Kinds], role : [1..d -> BaseRoles \cup DeclRoles], mrole : BaseRoles] : d \in 1..MaxDepth} : Legal(c)}

VARIABLE ch
GenInit == ch \in Chains
GenSpec == GenInit /\ [][UNCHANGED ch]_ch
GenEmit == PrintT(ToJson([chain |-> ch, owners |-> [i \in 1..Len(ch.kind) |-> Owner(ch, i)]]))
=============================================================================
