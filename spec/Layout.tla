------------------------------- MODULE Layout -------------------------------
(* G + R specification for C13 (the analysis depends on structure, not layout).

   Generator: a layout is a vector of independent choices of a layout-only
   printer (vlib/gen/layout.py works on the token stream, so the program's tokens -
   and hence its AST - are untouched):
       indent  unit of indentation                 1, 2, 4, 8 spaces or a tab
       join    consecutive simple statements joined by ';'     never / some / all
       oneline one-line compound statements (if x: y)           no / yes
       brk     line breaks inside brackets after , ( [ {        never / some / all
       cont    backslash continuations between tokens           no / yes
       space   extra spaces between tokens                      none / some / many
       blank   blank lines and comment lines between statements none / some / many
   TLC enumerates every vector (LayoutGen.cfg); the driver renders every program in
   a sample of them (quick) or all of them (thorough, small programs) and checks each
   rendering parses to the identical AST.

   Judge (LayoutCheck.tla): the summary of the analysis of each rendering - the
   diagnostics as (code, message, ordinal of the read / binding they point to) in
   order, and per read (by ordinal) the visible names, the alternative definitions
   (ordinals of binding occurrences) and the possibly-undefined flag - must equal the
   summary of the baseline rendering.                                         *)
EXTENDS Naturals, Sequences, FiniteSets, TLC, Json

Indents == {"1", "2", "4", "8", "tab"}
Vectors == [indent : Indents, join : 0..2, oneline : 0..1, brk : 0..2, cont : 0..1, space : 0..2, blank : 0..2]

VARIABLE vec
GenInit == vec \in Vectors
GenSpec == GenInit /\ [][UNCHANGED vec]_vec
GenEmit == PrintT(ToJson(vec))
\* a rendering that changes nothing but the indentation unit is the mildest layout; one that uses every knob the wildest
Mild(v) == v.join = 0 /\ v.oneline = 0 /\ v.brk = 0 /\ v.cont = 0 /\ v.space = 0 /\ v.blank = 0
AllKnobs == \E v \in Vectors : v.join = 2 /\ v.oneline = 1 /\ v.brk = 2 /\ v.cont = 1 /\ v.space = 2 /\ v.blank = 2
ASSUME AllKnobs /\ Cardinality(Vectors) = 5 * 3 * 2 * 3 * 2 * 3 * 3
=============================================================================
