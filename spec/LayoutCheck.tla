----------------------------- MODULE LayoutCheck -----------------------------
(* Judge part of Layout.tla.  case: [id, base |-> summary, layouts |-> <<summary, ...>>]
   summary: [diag |-> text, reads |-> <<text per read ordinal>>] (canonical texts).
   One trace action per rendering; clause SameAnalysis.                        *)
EXTENDS Naturals, Sequences, FiniteSets, TLC, Json, IOUtils
Cases == JsonDeserialize(IOEnv.VERIF_CASES)
NC == Len(Cases)
VARIABLES cid, l, bad
vars == <<cid, l, bad>>
Init == cid \in 1..NC /\ l = 1 /\ bad = FALSE
Step(c) ==
  LET b == Cases[c].base
      r == Cases[c].layouts[l]
      okd == r.diag = b.diag
      badReads == {i \in 1..Len(b.reads) : i > Len(r.reads) \/ r.reads[i] # b.reads[i]}
      okr == Len(r.reads) = Len(b.reads) /\ badReads = {} IN
  /\ l <= Len(Cases[c].layouts)
  /\ l' = l + 1
  /\ bad' = (bad \/ ~okd \/ ~okr)
  /\ (IF okd THEN TRUE ELSE PrintT(ToJson(<<"VFAIL", "C13", Cases[c].id, "SameDiagnostics", l>>)))
  /\ (IF okr THEN TRUE ELSE PrintT(ToJson(<<"VFAIL", "C13", Cases[c].id, "SameReads", <<l, badReads>> >>)))
  /\ UNCHANGED cid
Spec == Init /\ [][Step(cid)]_vars
Done == l = Len(Cases[cid].layouts) + 1
Count == /\ (Done => TLCSet(1, TLCGet(1) \cup {cid}))
         /\ ((Done /\ bad) => TLCSet(2, TLCGet(2) \cup {cid}))
ASSUME TLCSet(1, {}) /\ TLCSet(2, {})
Post == /\ PrintT(ToJson(<<"VDONE", "C13", NC, Cardinality(TLCGet(1)), Cardinality(TLCGet(2))>>))
        /\ Cardinality(TLCGet(1)) = NC
=============================================================================
