---------------------------- MODULE PyScopeEnum ----------------------------
(* Conformance configuration of PyScope: decisions and observations are part of the state, every complete
   execution is a distinct terminal state, printed as JSON and compared both ways with the executions of
   the real interpreter (vlib/gen/mscope.py enumerate).                                             *)
EXTENDS PyScope
Init == SInit
Next == SNext
Spec == Init /\ [][Next]_svars
Emit == Terminated => PrintT(ToJson([pid |-> Programs[pid].id, dec |-> dec, obs |-> obs, crash |-> crash]))
=============================================================================
