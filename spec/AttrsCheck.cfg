SPECIFICATION Spec
POSTCONDITION Post
CHECK_DEADLOCK FALSE
