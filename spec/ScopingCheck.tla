---------------------------- MODULE ScopingCheck ----------------------------
(* Judge for C05.  case: [id, kinds |-> <<kind of scope 1..d>>, reads |-> << [scope, spec (owner predicted by Scoping.tla, or -1
   for real files), sym (owner by CPython's symtable), alts |-> <<effective owner of every alternative supp resolves the read to>>,
   skip (class-body read of a name the class binds)] >>, norm |-> <<Norm(0), Norm(1), ...>> (index of the nearest
   non-comprehension scope: comprehension targets are compared as bindings of the enclosing scope)]
   RefOK: spec = sym (reference validation of Scoping.tla against CPython).
   OwnScope: every alternative belongs to the scope CPython assigns the read to.          *)
EXTENDS Naturals, Integers, Sequences, FiniteSets, TLC, Json, IOUtils
Cases == JsonDeserialize(IOEnv.VERIF_CASES)
NC == Len(Cases)
VARIABLES cid, done
Fail(c, clause, d) == PrintT(ToJson(<<"VFAIL", "C05", Cases[c].id, clause, d>>))
Norm(c, i) == Cases[c].norm[i + 1]
Init == cid \in 1..NC /\ done = FALSE
Judge ==
  /\ ~done /\ done' = TRUE /\ UNCHANGED cid
  /\ LET r == Cases[cid]
         ref == \A k \in 1..Len(r.reads) : r.reads[k].spec = -1 \/ r.reads[k].spec = r.reads[k].sym
         badreads == {k \in 1..Len(r.reads) : ~r.reads[k].skip /\
                        \E a \in 1..Len(r.reads[k].alts) : Norm(cid, r.reads[k].alts[a]) # Norm(cid, r.reads[k].sym)}
         own == badreads = {} IN
     /\ (IF ref THEN TRUE ELSE Fail(cid, "REF", [k \in 1..Len(r.reads) |-> <<r.reads[k].spec, r.reads[k].sym>>]))
     /\ (IF own THEN TRUE ELSE Fail(cid, "OwnScope", [k \in badreads |-> <<r.reads[k].scope, r.reads[k].sym, r.reads[k].alts>>]))
     /\ TLCSet(1, TLCGet(1) \cup {cid})
     /\ (IF ref /\ own THEN TRUE ELSE TLCSet(2, TLCGet(2) \cup {cid}))
Spec == Init /\ [][Judge]_<<cid, done>>
ASSUME TLCSet(1, {}) /\ TLCSet(2, {})
Post == /\ PrintT(ToJson(<<"VDONE", "C05", NC, Cardinality(TLCGet(1)), Cardinality(TLCGet(2))>>))
        /\ Cardinality(TLCGet(1)) = NC
=============================================================================
