SPECIFICATION EvalSpec
CONSTANT MaxDepth = 6
INVARIANT GenEmit
CHECK_DEADLOCK FALSE
