------------------------------ MODULE ImportSys ------------------------------
(* R + M spec for C07: which file a dotted module name denotes.

   A layout has NR ordered source roots.  Under each root the head name "a" is
       absent | a module a.py | a package a/ (with __init__.py) whose children "c" and "d" are each
       absent | a module | a package containing the grandchild "e" (absent | module)
   and the head name "b" is absent or a module.  (No namespace directories, no module and package of one name in one
   directory: outside the property's domain.)

   Find(name)      what Python's import system loads (importlib.machinery.PathFinder): the head component is looked up
                   in the roots in order and the FIRST root that has it wins; every further component is looked up ONLY
                   in the directory of the package found so far (its __path__).
   ImplFind(name)  supp's Project.get_module:
       Fixed = FALSE  the pinned tree: every root is probed with the complete dotted path (root/a/c.py), so a submodule can
                      be taken from a later root although the package itself was found in an earlier one;
       Fixed = TRUE   the repaired search, same as Find.
   Agreement:  ImplFind = Find for every name of every layout.  TLC shows it violated for Fixed = FALSE (the
   design-level statement of the defect) and valid for Fixed = TRUE.  Every layout (as initial state) is also a test vector:
   the driver materialises it, asks the real importlib (reference validation of Find) and the real supp.        *)
EXTENDS Naturals, Sequences, FiniteSets, TLC, Json

CONSTANTS NR, Fixed
Roots == 1..NR
ChildKinds == {"absent", "module", "pkg", "pkg+e"}      \* pkg+e: package containing the module e
AKinds == {[k |-> "absent"], [k |-> "module"]} \cup {[k |-> "package", c |-> x, d |-> y] : x \in ChildKinds, y \in ChildKinds}
BKinds == {"absent", "module"}
Layouts == [Roots -> [a : AKinds, b : BKinds]]

NameSeq == << <<"a">>, <<"b">>, <<"a", "c">>, <<"a", "d">>, <<"a", "c", "e">>, <<"a", "d", "e">>, <<"b", "c">>, <<"a", "e">>, <<"zz">>, <<"a", "zz">> >>
Names == {NameSeq[i] : i \in 1..Len(NameSeq)}

NotFound == [found |-> FALSE, root |-> 0, kind |-> "", path |-> <<>>]
Hit(r, kind, path) == [found |-> TRUE, root |-> r, kind |-> kind, path |-> path]

\* what sits at `path` under root r of layout L: "absent" | "module" | "package"
At(L, r, path) ==
  LET A == L[r].a IN
  CASE path = <<"a">> -> A.k
    [] path = <<"b">> -> L[r].b
    [] Len(path) = 2 /\ path[1] = "a" /\ path[2] \in {"c", "d"} ->
         IF A.k # "package" THEN "absent"
         ELSE LET ck == IF path[2] = "c" THEN A.c ELSE A.d IN
              IF ck = "absent" THEN "absent" ELSE IF ck = "module" THEN "module" ELSE "package"
    [] Len(path) = 3 /\ path[1] = "a" /\ path[2] \in {"c", "d"} /\ path[3] = "e" ->
         IF A.k # "package" THEN "absent"
         ELSE LET ck == IF path[2] = "c" THEN A.c ELSE A.d IN IF ck = "pkg+e" THEN "module" ELSE "absent"
    [] OTHER -> "absent"

\* importlib
FirstRootWith(L, path) == LET rs == {r \in Roots : At(L, r, path) # "absent"} IN
                          IF rs = {} THEN 0 ELSE CHOOSE r \in rs : \A q \in rs : r <= q
RECURSIVE Descend(_, _, _, _)
Descend(L, r, name, i) ==        \* components 1..i-1 of name are packages under root r
  LET here == At(L, r, SubSeq(name, 1, i)) IN
  IF here = "absent" THEN NotFound
  ELSE IF i = Len(name) THEN Hit(r, here, name)
  ELSE IF here # "package" THEN NotFound
  ELSE Descend(L, r, name, i + 1)
Find(L, name) == LET r == FirstRootWith(L, <<name[1]>>) IN IF r = 0 THEN NotFound ELSE Descend(L, r, name, 1)

\* supp, pinned: probe every root with the full path; a hit needs the file / package itself, not its parents
ImplFindPinned(L, name) ==
  LET rs == {r \in Roots : At(L, r, name) # "absent"} IN
  IF rs = {} THEN NotFound
  ELSE LET r == CHOOSE r \in rs : \A q \in rs : r <= q IN Hit(r, At(L, r, name), name)
ImplFind(L, name) == IF Fixed THEN Find(L, name) ELSE ImplFindPinned(L, name)

VARIABLE lay
Init == lay \in Layouts
Spec == Init /\ [][UNCHANGED lay]_lay
Agreement == \A n \in Names : ImplFind(lay, n) = Find(lay, n)
Emit == PrintT(ToJson([layout |-> lay, finds |-> [i \in 1..Len(NameSeq) |-> [name |-> NameSeq[i], res |-> Find(lay, NameSeq[i])]]]))
=============================================================================
