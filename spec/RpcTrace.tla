------------------------------ MODULE RpcTrace ------------------------------
(* R-spec for C15 as a trace specification.  A case is the history of ONE real
   server subprocess: every request sent through the real client
   (supp.remote.Environment), what came back, and what the in-process API
   (assistant.assist / assistant.location / linter.lint on a Project configured
   the same way; a local evaluation for eval) gave for the same arguments.

   record: [k, cls, remote |-> [kind, val, msg], local |-> [kind, val, msg], alive, echo]
     kind   "ok" | "exc" | "na" (no in-process counterpart: unknown method, wrong arguments,
            unserialisable result, request before configure)
     val    canonical text (or digest) of the value with tuples as lists
     msg    exception message with object addresses masked
     echo   the nonce embedded in the k-th request came back with the k-th reply

   Clauses (the property's): Transparent, Paired, Reported (a failing request is an
   exception carrying the server's message), Alive, Isolated (implied: every later
   record is still judged against the in-process result).                        *)
EXTENDS Naturals, Sequences, FiniteSets, TLC, Json, IOUtils

Cases == JsonDeserialize(IOEnv.VERIF_CASES)
NC == Len(Cases)

VARIABLES cid, l, conf, bad
vars == <<cid, l, conf, bad>>

Rec(c) == Cases[c].records
N(c) == Len(Rec(c))

ErrorOnly == {"cfgbad", "evalexc", "unknown", "badargs", "unser",
              "evalbase"}     \* evaluated code raising SystemExit / KeyboardInterrupt / another BaseException, or an exception without a usable message

Fail(c, clause, detail) == PrintT(ToJson(<<"VFAIL", "C15", Cases[c].id, clause, detail>>))
Check(c, ok, clause, detail) == IF ok THEN TRUE ELSE Fail(c, clause, detail)

Init == cid \in 1..NC /\ l = 1 /\ conf = FALSE /\ bad = FALSE

Step(c) ==
  LET r == Rec(c)[l]
      \* reference validation: the driver's classification must agree with the in-process run
      refOk == CASE r.cls \in {"cfg", "eval"} -> r.local.kind = "ok"
                 [] r.cls = "api" -> r.local.kind \in {"ok", "exc"}
                 [] r.cls = "evalexc" -> r.local.kind = "exc"
                 [] r.cls = "cfgbad" -> r.local.kind = "exc"
                 [] OTHER -> r.local.kind = "na"
      needsProject == r.cls = "api" /\ ~conf
      expectOk == r.local.kind = "ok" /\ ~needsProject /\ r.cls \notin ErrorOnly
      transparent == IF expectOk THEN r.remote.kind = "ok" /\ r.remote.val = r.local.val
                     ELSE TRUE
      reported == IF expectOk THEN TRUE
                  ELSE /\ r.remote.kind = "exc"
                       /\ r.remote.msg # ""
                       /\ (r.local.kind = "exc" /\ ~needsProject) => r.remote.msg = r.local.msg
                       /\ (r.cls = "unser") => r.remote.msg = "Serialize error"
      paired == r.k = l /\ r.echo
  IN
  /\ l <= N(c)
  /\ refOk          \* otherwise the record is not consumed: machinery failure
  /\ l' = l + 1
  /\ conf' = (conf \/ (r.cls = "cfg" /\ r.remote.kind = "ok"))
  /\ bad' = (bad \/ ~transparent \/ ~reported \/ ~paired \/ ~r.alive)
  /\ Check(c, transparent, "Transparent", <<l, r.cls>>)
  /\ Check(c, reported, "Reported", <<l, r.cls, r.remote.kind, r.remote.msg>>)
  /\ Check(c, paired, "Paired", <<l, r.k>>)
  /\ Check(c, r.alive, "Alive", <<l, r.cls>>)
  /\ UNCHANGED cid

Next == Step(cid)
Spec == Init /\ [][Next]_vars

Done == l = N(cid) + 1
Count == /\ (Done => TLCSet(1, TLCGet(1) \cup {cid}))
         /\ ((Done /\ bad) => TLCSet(2, TLCGet(2) \cup {cid}))
ASSUME TLCSet(1, {}) /\ TLCSet(2, {})
Post == /\ PrintT(ToJson(<<"VDONE", "C15", NC, Cardinality(TLCGet(1)), Cardinality(TLCGet(2))>>))
        /\ Cardinality(TLCGet(1)) = NC
=============================================================================
