------------------------------ MODULE AttrsCheck ------------------------------
(* Judge for C06.  case = one rendered hierarchy and one way of reaching it:
   [id, queries |-> << [cls, attr, form, spec |-> <<sites>> (Sites / ClassSites of Attrs.tla), ref |-> <<sites>> (CPython: where the real
                        object gets the attribute from), land |-> <<sites supp's go-to-definition lands on (last element of the chain)>>,
                        lok (location answered)] >>,
        props   |-> << [cls, form, spec |-> <<names>>, ref |-> <<names>> (CPython), missing |-> <<expected names supp does not propose>>] >>]
   sites are <<class, "class" | "inst", attr>>.
   RefOK: Attrs.tla = CPython.   Clauses: Lands (non-empty and within the expected sites), Proposes (nothing missing).   *)
EXTENDS Naturals, Sequences, FiniteSets, TLC, Json, IOUtils
Cases == JsonDeserialize(IOEnv.VERIF_CASES)
NC == Len(Cases)
VARIABLES cid, done
ToSet(s) == {s[i] : i \in 1..Len(s)}
Fail(c, clause, d) == PrintT(ToJson(<<"VFAIL", "C06", Cases[c].id, clause, d>>))
Init == cid \in 1..NC /\ done = FALSE
Judge ==
  /\ ~done /\ done' = TRUE /\ UNCHANGED cid
  /\ LET r == Cases[cid]
         Q == r.queries
         ref == (\A i \in 1..Len(Q) : ToSet(Q[i].spec) = ToSet(Q[i].ref)) /\ (\A i \in 1..Len(r.props) : ToSet(r.props[i].spec) = ToSet(r.props[i].ref))
         badland == {i \in 1..Len(Q) : ToSet(Q[i].ref) # {} /\ (~Q[i].lok \/ ToSet(Q[i].land) = {} \/ ~(ToSet(Q[i].land) \subseteq ToSet(Q[i].ref)))}
         badprop == {i \in 1..Len(r.props) : r.props[i].missing # <<>>} IN
     /\ (IF ref THEN TRUE ELSE Fail(cid, "REF", 0))
     /\ (IF badland = {} THEN TRUE ELSE Fail(cid, "Lands", [i \in badland |-> <<Q[i].cls, Q[i].attr, Q[i].form, Q[i].ref, Q[i].land>>]))
     /\ (IF badprop = {} THEN TRUE ELSE Fail(cid, "Proposes", [i \in badprop |-> <<r.props[i].cls, r.props[i].form, r.props[i].missing>>]))
     /\ TLCSet(1, TLCGet(1) \cup {cid})
     /\ (IF ref /\ badland = {} /\ badprop = {} THEN TRUE ELSE TLCSet(2, TLCGet(2) \cup {cid}))
Spec == Init /\ [][Judge]_<<cid, done>>
ASSUME TLCSet(1, {}) /\ TLCSet(2, {})
Post == /\ PrintT(ToJson(<<"VDONE", "C06", NC, Cardinality(TLCGet(1)), Cardinality(TLCGet(2))>>))
        /\ Cardinality(TLCGet(1)) = NC
=============================================================================
