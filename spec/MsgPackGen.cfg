SPECIFICATION Spec
INVARIANT RefOK
INVARIANT Emit
CHECK_DEADLOCK FALSE
