SPECIFICATION GenSpec
CONSTANTS
  MaxN = 5
  MaxRep = 4
INVARIANT GenEmit
CHECK_DEADLOCK FALSE
