-------------------------------- MODULE Eval --------------------------------
(* M-spec for the termination half of C08: supp's evaluator as a stack machine over a definition graph.

   Nodes are definitions of a small project; succ[n] is what evaluating n must evaluate next:
     "const"   nothing (a literal, a def, a builtin)
     "assign"  x = y            -> the definition y denotes
     "import"  from m import y  -> the definition named y in m (possibly again an import: re-export)
     "call"    x = f()          -> the single return expression of f
     "class"   class C(B)       -> its base B (attribute tables are merged over the bases)
     "star"    from m import *; x = y  -> building the name table of the module needs the name table of m (a module that
               is reached again while its own table is under construction offers its own names only)
   EvalCtx.evaluate keeps the set `busy` of nodes in progress and answers None for a node met again (evaluator.py:
   `if node is None or node in self.nodes: return None`); EvalCtx.declarations (go-to-definition) follows import edges
   recursively.  Guarded = TRUE models the guard (as evaluate does, and declarations since its repair); Guarded = FALSE models
   recursion without it.
   Properties: Bounded (the stack never exceeds the number of nodes), Terminates (<> done).  TLC checks every functional graph
   over N nodes: with the guard both hold; without it a cycle (x = y; y = x / mutual from-imports / class A(B), class B(A) through
   modules / f returns f()) is the counterexample.  Every graph is also rendered and run through the real API under a recursion
   monitor and a wall-clock limit (vlib/drivers/c08_worker.py).                                                     *)
EXTENDS Naturals, Sequences, FiniteSets, TLC, Json

CONSTANTS N, Guarded
Nodes == 1..N
EdgeKinds == {"const", "assign", "import", "call", "class", "star"}
Graphs == [kind : [Nodes -> EdgeKinds], succ : [Nodes -> Nodes]]

VARIABLES g, stack, busy, done
vars == <<g, stack, busy, done>>
Init == g \in Graphs /\ stack = <<1>> /\ busy = {1} /\ done = FALSE

Step ==
  /\ ~done /\ stack # <<>>
  /\ LET n == stack[Len(stack)] IN
     IF g.kind[n] = "const"
     THEN \* a value: everything in progress completes
          /\ done' = TRUE /\ stack' = <<>> /\ busy' = {} /\ UNCHANGED g
     ELSE LET m == g.succ[n] IN
          IF Guarded /\ m \in busy
          THEN /\ done' = TRUE /\ stack' = <<>> /\ busy' = {} /\ UNCHANGED g       \* met again: None, unwinds
          ELSE /\ stack' = Append(stack, m) /\ busy' = busy \cup {m} /\ UNCHANGED <<g, done>>
Finished == done /\ UNCHANGED vars
Next == Step \/ Finished
Spec == Init /\ [][Next]_vars /\ WF_vars(Step)

Bounded == Len(stack) <= N
Terminates == <>done
HasCycle == \E n \in Nodes : g.kind[n] # "const" /\ LET RECURSIVE Reach(_, _)
                                                        Reach(x, k) == IF k = 0 THEN {x} ELSE {x} \cup (IF g.kind[x] = "const" THEN {} ELSE Reach(g.succ[x], k - 1))
                                                    IN n \in (IF g.kind[n] = "const" THEN {} ELSE Reach(g.succ[n], N))
Emit == (stack = <<1>> /\ ~done) => PrintT(ToJson([kind |-> g.kind, succ |-> g.succ]))
=============================================================================
