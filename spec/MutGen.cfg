SPECIFICATION GenSpec
INVARIANT GenEmit
CHECK_DEADLOCK FALSE
