------------------------------ MODULE MsgPack ------------------------------
(* Reference model of the MessagePack format, written from the specification
   (https://github.com/msgpack/msgpack/blob/master/spec.md), independent of
   supp/umsgpack.py: the format table, an independent decoder, the set of legal
   encodings of boundary values.  Used (i) on its own: TLC checks that the 256
   first bytes are partitioned into the families, that decoding any legal
   encoding of a value gives the value back and that every proper prefix is
   "insufficient"; (ii) as the generator of test vectors (MsgPackGen.cfg) and
   (iii) as the judge of what the real dumps/loads did (MsgPackCheck.cfg).

   Byte strings are sequences of segments <<b, 0>> (one byte b) or <<h, n>>
   (an opaque run of n payload bytes whose content has the identity h): long
   str/bin/ext payloads are never spelt out; a run can only be consumed whole, as
   payload.  Integers are [neg, mag] with mag the minimal big-endian magnitude
   (TLC integers are 32 bit).                                                 *)
EXTENDS Integers, Sequences, FiniteSets, TLC

Byte(b) == <<b, 0>>
IsByte(s) == s[2] = 0
W(s) == IF s[2] = 0 THEN 1 ELSE s[2]
RECURSIVE Width(_)
Width(segs) == IF segs = <<>> THEN 0 ELSE W(Head(segs)) + Width(Tail(segs))

---------------------------------------------------------------------------
\* The format table: first byte -> family
Family(b) ==
  CASE b <= 127 -> "pfixint"
    [] b >= 128 /\ b <= 143 -> "fixmap"
    [] b >= 144 /\ b <= 159 -> "fixarray"
    [] b >= 160 /\ b <= 191 -> "fixstr"
    [] b = 192 -> "nil"
    [] b = 193 -> "reserved"
    [] b = 194 -> "false"
    [] b = 195 -> "true"
    [] b = 196 -> "bin8"   [] b = 197 -> "bin16"  [] b = 198 -> "bin32"
    [] b = 199 -> "ext8"   [] b = 200 -> "ext16"  [] b = 201 -> "ext32"
    [] b = 202 -> "float32" [] b = 203 -> "float64"
    [] b = 204 -> "uint8"  [] b = 205 -> "uint16" [] b = 206 -> "uint32" [] b = 207 -> "uint64"
    [] b = 208 -> "int8"   [] b = 209 -> "int16"  [] b = 210 -> "int32"  [] b = 211 -> "int64"
    [] b = 212 -> "fixext1" [] b = 213 -> "fixext2" [] b = 214 -> "fixext4" [] b = 215 -> "fixext8" [] b = 216 -> "fixext16"
    [] b = 217 -> "str8"   [] b = 218 -> "str16"  [] b = 219 -> "str32"
    [] b = 220 -> "array16" [] b = 221 -> "array32"
    [] b = 222 -> "map16"  [] b = 223 -> "map32"
    [] OTHER -> "nfixint"

Families == {"pfixint", "fixmap", "fixarray", "fixstr", "nil", "reserved", "false", "true", "bin8", "bin16", "bin32",
             "ext8", "ext16", "ext32", "float32", "float64", "uint8", "uint16", "uint32", "uint64",
             "int8", "int16", "int32", "int64", "fixext1", "fixext2", "fixext4", "fixext8", "fixext16",
             "str8", "str16", "str32", "array16", "array32", "map16", "map32", "nfixint"}

\* width of the fixed-size field that follows the first byte
FieldWidth(f) ==
  CASE f \in {"bin8", "ext8", "str8", "uint8", "int8"} -> 1
    [] f \in {"bin16", "ext16", "str16", "uint16", "int16", "array16", "map16"} -> 2
    [] f \in {"bin32", "ext32", "str32", "uint32", "int32", "array32", "map32", "float32"} -> 4
    [] f \in {"uint64", "int64", "float64"} -> 8
    [] OTHER -> 0
FixExtLen(f) == CASE f = "fixext1" -> 1 [] f = "fixext2" -> 2 [] f = "fixext4" -> 4 [] f = "fixext8" -> 8 [] OTHER -> 16

\* every first byte belongs to exactly one family (Family is a function; the table has no gaps)
Partition == /\ \A b \in 0..255 : Family(b) \in Families
             /\ \A f \in Families : \E b \in 0..255 : Family(b) = f
             /\ Cardinality({b \in 0..255 : Family(b) = "reserved"}) = 1

---------------------------------------------------------------------------
\* byte arithmetic on big-endian sequences of 0..255
RECURSIVE StripZeros(_)
StripZeros(bs) == IF bs # <<>> /\ Head(bs) = 0 THEN StripZeros(Tail(bs)) ELSE bs
Complement(bs) == [i \in 1..Len(bs) |-> 255 - bs[i]]
RECURSIVE AddOne(_)
AddOne(bs) == IF bs = <<>> THEN <<>>                   \* overflow dropped: width is fixed
              ELSE LET n == Len(bs) IN
                   IF bs[n] < 255 THEN [bs EXCEPT ![n] = @ + 1]
                   ELSE Append(AddOne(SubSeq(bs, 1, n - 1)), 0)
Negate(bs) == AddOne(Complement(bs))                    \* two's complement in Len(bs) bytes
\* a 32-bit count >= 2^31 is clamped to 2^31 - 1 (TLC integers are 32-bit): either way it exceeds every input here, so
\* the decoder answers "insufficient" (bytes following a header by accident - a wrongly encoded value - can be anything)
SmallInt(bs) == IF Len(bs) = 1 THEN bs[1] ELSE IF Len(bs) = 2 THEN bs[1] * 256 + bs[2]
                ELSE IF bs[1] >= 128 THEN 2147483647
                ELSE ((bs[1] * 256 + bs[2]) * 256 + bs[3]) * 256 + bs[4]
IntShape(neg, magbytes) == [t |-> "int", neg |-> IF StripZeros(magbytes) = <<>> THEN 0 ELSE neg, mag |-> StripZeros(magbytes)]
UnsignedShape(bs) == IntShape(0, bs)
SignedShape(bs) == IF bs[1] >= 128 THEN IntShape(1, Negate(bs)) ELSE IntShape(0, bs)

---------------------------------------------------------------------------
\* The reference decoder.  Dec(s, i) decodes one object starting at segment i and returns
\*   [ok |-> TRUE, v |-> shape, nx |-> index after it]   or   [ok |-> FALSE, err |-> reason]
Err(e) == [ok |-> FALSE, err |-> e]

\* n header bytes starting at segment i (all must be plain bytes)
Bytes(s, i, n) ==
  IF i + n - 1 > Len(s) THEN Err("insufficient")
  ELSE IF \E k \in i..(i + n - 1) : ~IsByte(s[k]) THEN Err("run-in-header")
  ELSE [ok |-> TRUE, v |-> [k \in 1..n |-> s[i + k - 1][1]], nx |-> i + n]

\* n payload bytes starting at segment i (runs are consumed whole)
RECURSIVE Take(_, _, _, _)
Take(s, i, n, acc) ==
  IF n = 0 THEN [ok |-> TRUE, v |-> acc, nx |-> i]
  ELSE IF i > Len(s) THEN Err("insufficient")
  ELSE IF W(s[i]) > n THEN Err("misaligned")
  ELSE Take(s, i + 1, n - W(s[i]), Append(acc, s[i]))

RECURSIVE Dec(_, _), DecItems(_, _, _, _), DecPairs(_, _, _, _)
Payload(kind, s, i, n, extra) ==          \* str / bin / ext payload of n bytes
  LET p == Take(s, i, n, <<>>) IN
  IF ~p.ok THEN p ELSE [ok |-> TRUE, v |-> [t |-> kind, n |-> n, ty |-> extra, segs |-> p.v], nx |-> p.nx]

Dec(s, i) ==
  IF i > Len(s) THEN Err("insufficient")
  ELSE IF ~IsByte(s[i]) THEN Err("run-in-header")
  ELSE
  LET b == s[i][1]
      f == Family(b)
      fw == FieldWidth(f)
      fld == Bytes(s, i + 1, fw) IN
  CASE f = "pfixint" -> [ok |-> TRUE, v |-> IntShape(0, <<b>>), nx |-> i + 1]
    [] f = "nfixint" -> [ok |-> TRUE, v |-> IntShape(1, <<256 - b>>), nx |-> i + 1]
    [] f = "nil" -> [ok |-> TRUE, v |-> [t |-> "nil"], nx |-> i + 1]
    [] f = "false" -> [ok |-> TRUE, v |-> [t |-> "bool", b |-> 0], nx |-> i + 1]
    [] f = "true" -> [ok |-> TRUE, v |-> [t |-> "bool", b |-> 1], nx |-> i + 1]
    [] f = "reserved" -> Err("reserved")
    [] f \in {"uint8", "uint16", "uint32", "uint64"} ->
         IF ~fld.ok THEN fld ELSE [ok |-> TRUE, v |-> UnsignedShape(fld.v), nx |-> fld.nx]
    [] f \in {"int8", "int16", "int32", "int64"} ->
         IF ~fld.ok THEN fld ELSE [ok |-> TRUE, v |-> SignedShape(fld.v), nx |-> fld.nx]
    [] f \in {"float32", "float64"} ->
         IF ~fld.ok THEN fld ELSE [ok |-> TRUE, v |-> [t |-> "float", w |-> fw, bits |-> fld.v], nx |-> fld.nx]
    [] f = "fixstr" -> Payload("str", s, i + 1, b - 160, 0)
    [] f \in {"str8", "str16", "str32"} -> IF ~fld.ok THEN fld ELSE Payload("str", s, fld.nx, SmallInt(fld.v), 0)
    [] f \in {"bin8", "bin16", "bin32"} -> IF ~fld.ok THEN fld ELSE Payload("bin", s, fld.nx, SmallInt(fld.v), 0)
    [] f \in {"fixext1", "fixext2", "fixext4", "fixext8", "fixext16"} ->
         LET ty == Bytes(s, i + 1, 1) IN
         IF ~ty.ok THEN ty ELSE Payload("ext", s, ty.nx, FixExtLen(f), ty.v[1])
    [] f \in {"ext8", "ext16", "ext32"} ->
         IF ~fld.ok THEN fld ELSE
         LET ty == Bytes(s, fld.nx, 1) IN
         IF ~ty.ok THEN ty ELSE Payload("ext", s, ty.nx, SmallInt(fld.v), ty.v[1])
    [] f = "fixarray" -> DecItems(s, i + 1, b - 144, <<>>)
    [] f \in {"array16", "array32"} -> IF ~fld.ok THEN fld ELSE DecItems(s, fld.nx, SmallInt(fld.v), <<>>)
    [] f = "fixmap" -> DecPairs(s, i + 1, b - 128, <<>>)
    [] f \in {"map16", "map32"} -> IF ~fld.ok THEN fld ELSE DecPairs(s, fld.nx, SmallInt(fld.v), <<>>)

DecItems(s, i, n, acc) ==
  IF n = 0 THEN [ok |-> TRUE, v |-> [t |-> "arr", items |-> acc], nx |-> i]
  ELSE LET d == Dec(s, i) IN
       IF ~d.ok THEN d ELSE DecItems(s, d.nx, n - 1, Append(acc, d.v))

DecPairs(s, i, n, acc) ==
  IF n = 0 THEN [ok |-> TRUE, v |-> [t |-> "map", items |-> acc], nx |-> i]
  ELSE LET k == Dec(s, i) IN
       IF ~k.ok THEN k ELSE
       LET v == Dec(s, k.nx) IN
       IF ~v.ok THEN v ELSE DecPairs(s, v.nx, n - 1, Append(acc, <<k.v, v.v>>))

\* header of a container: [t, n, nx] without decoding the items
ContainerHeader(s) ==
  IF s = <<>> \/ ~IsByte(s[1]) THEN Err("insufficient")
  ELSE LET b == s[1][1]  f == Family(b)  fld == Bytes(s, 2, FieldWidth(f)) IN
       CASE f = "fixarray" -> [ok |-> TRUE, t |-> "arr", n |-> b - 144, nx |-> 2]
         [] f = "fixmap" -> [ok |-> TRUE, t |-> "map", n |-> b - 128, nx |-> 2]
         [] f \in {"array16", "array32"} -> IF ~fld.ok THEN fld ELSE [ok |-> TRUE, t |-> "arr", n |-> SmallInt(fld.v), nx |-> fld.nx]
         [] f \in {"map16", "map32"} -> IF ~fld.ok THEN fld ELSE [ok |-> TRUE, t |-> "map", n |-> SmallInt(fld.v), nx |-> fld.nx]
         [] OTHER -> Err("not-a-container")

\* decode a complete byte string: exactly one object, nothing left
Decode(s) == LET d == Dec(s, 1) IN
             IF ~d.ok THEN d ELSE IF d.nx # Len(s) + 1 THEN Err("trailing") ELSE d

\* the first p bytes of s (a run may be cut)
RECURSIVE Trunc(_, _)
Trunc(s, p) == IF p <= 0 \/ s = <<>> THEN <<>>
               ELSE IF W(Head(s)) <= p THEN <<Head(s)>> \o Trunc(Tail(s), p - W(Head(s)))
               ELSE << <<Head(s)[1], p>> >>

---------------------------------------------------------------------------
\* Legal encodings of boundary values (the generator side)

\* big-endian bytes of a small natural in exactly w bytes
BE(n, w) == [k \in 1..w |-> (n \div (256 ^ (w - k))) % 256]
Pad(bs, w) == [k \in 1..w |-> IF k <= w - Len(bs) THEN 0 ELSE bs[k - (w - Len(bs))]]
Bs(bs) == [k \in 1..Len(bs) |-> Byte(bs[k])]
RunOf(h, n) == IF n = 0 THEN <<>> ELSE << <<h, n>> >>

\* all legal encodings of the integer [neg, mag] (mag minimal, at most 8 bytes)
IntEncodings(neg, mag) ==
  LET L == Len(mag)
      small == IF L = 0 THEN 0 ELSE IF L = 1 THEN mag[1] ELSE 1000   \* only magnitudes < 256 matter for the fix forms
      unsigned == IF neg = 1 THEN {} ELSE
         {<<Byte(204 + k)>> \o Bs(Pad(mag, 2 ^ k)) : k \in {k \in 0..3 : 2 ^ k >= L}}
      \* signed form of width w: a non-negative needs the top bit clear, a negative needs magnitude <= 2^(8w-1)
      fitsPos(w) == L < w \/ (L = w /\ mag[1] < 128)
      fitsNeg(w) == L < w \/ (L = w /\ (mag[1] < 128 \/ (mag[1] = 128 /\ \A k \in 2..L : mag[k] = 0)))
      signed == {<<Byte(208 + k)>> \o Bs(IF neg = 1 THEN Negate(Pad(mag, 2 ^ k)) ELSE Pad(mag, 2 ^ k)) :
                   k \in {k \in 0..3 : IF neg = 1 THEN fitsNeg(2 ^ k) ELSE fitsPos(2 ^ k)}}
      fix == IF neg = 0 /\ small <= 127 THEN {<<Byte(small)>>}
             ELSE IF neg = 1 /\ small <= 32 /\ small >= 1 THEN {<<Byte(256 - small)>>} ELSE {}
  IN unsigned \cup signed \cup fix

\* p: the payload segments (Width(p) = n)
StrEncodingsP(n, p) ==
  (IF n <= 31 THEN {<<Byte(160 + n)>> \o p} ELSE {})
  \cup {<<Byte(217 + k)>> \o Bs(BE(n, 2 ^ k)) \o p : k \in {k \in 0..2 : k = 2 \/ n < 256 ^ (2 ^ k)}}
BinEncodingsP(n, p) ==
  {<<Byte(196 + k)>> \o Bs(BE(n, 2 ^ k)) \o p : k \in {k \in 0..2 : k = 2 \/ n < 256 ^ (2 ^ k)}}
ExtEncodingsP(ty, n, p) ==
  (IF n \in {1, 2, 4, 8, 16} THEN {<<Byte(CASE n = 1 -> 212 [] n = 2 -> 213 [] n = 4 -> 214 [] n = 8 -> 215 [] OTHER -> 216), Byte(ty)>> \o p} ELSE {})
  \cup {<<Byte(199 + k)>> \o Bs(BE(n, 2 ^ k)) \o <<Byte(ty)>> \o p : k \in {k \in 0..2 : k = 2 \/ n < 256 ^ (2 ^ k)}}
StrEncodings(n, h) == StrEncodingsP(n, RunOf(h, n))
BinEncodings(n, h) == BinEncodingsP(n, RunOf(h, n))
ExtEncodings(ty, n, h) == ExtEncodingsP(ty, n, RunOf(h, n))
\* container headers for n items
ArrHeaders(n) == (IF n <= 15 THEN {<<Byte(144 + n)>>} ELSE {})
                 \cup {<<Byte(220 + k)>> \o Bs(BE(n, 2 * (k + 1))) : k \in {k \in 0..1 : n < 65536 \/ k = 1}}
MapHeaders(n) == (IF n <= 15 THEN {<<Byte(128 + n)>>} ELSE {})
                 \cup {<<Byte(222 + k)>> \o Bs(BE(n, 2 * (k + 1))) : k \in {k \in 0..1 : n < 65536 \/ k = 1}}
=============================================================================
