----------------------------- MODULE PyBindCheck -----------------------------
(* Judge for C01, C02, C03 (and the source-order clause of C17) on one-body programs.
   For every program TLC explores ALL executions of the reference semantics PyBind
   (every branch outcome, 0..2 trips per loop activation, every raise/no-raise
   choice), in the strict (CPython) and in the lenient (control-flow) reading, and
   accumulates per read r the set of values the name can have there:
        SeenS[r], SeenL[r]  \subseteq  binding sites \cup {UNBOUND, BUILTIN}
   Each program carries what the REAL supp answered for it (recorded by the driver):
        rd[r]   = [vis, e02, e42, assist, undef, alts (sequence of binding sites), ext (alternatives that are not
                   sites of this body: builtins / enclosing scope), loc (sites listed by location())]
        unused  = binding sites reported W01/W02
   and its domain flags (c02: structured fragment of C02; c03: canonical fragment of C03).
   Clauses are evaluated in the POSTCONDITION, each on the side that makes it weaker
   (DESIGN section 6, "Strict and lenient paths").                                  *)
EXTENDS PyBind, TLCExt

Init == PInit
Next == PNext
Spec == Init /\ [][Next]_pvars
View == <<pid, lenient, k, env, pend, crash>>

\* registers: pid -> strict accumulator, NP + pid -> lenient accumulator, 2 NP + pid -> strict reads made while an
\* uncaught NameError is unwinding (they count for C01 only: C02/C03 exclude exceptions raised at arbitrary points);
\* each a set of <<read id, value>>
ASSUME \A p \in 1..(3 * NP) : TLCSet(p, {})
Reg == IF lenient THEN NP + pid ELSE IF crash THEN 2 * NP + pid ELSE pid
Accumulate ==
  IF k # <<>> /\ pend.t = "none" /\ N(Top.n).k = "read"
  THEN TLCSet(Reg, TLCGet(Reg) \cup {<<N(Top.n).s, Get(N(Top.n).n)>>})
  ELSE TRUE

SeenOf(reg, r) == {p[2] : p \in {p \in TLCGet(reg) : p[1] = r}}
ToSet(s) == {s[i] : i \in 1..Len(s)}
Sites(vals) == {v \in vals : v > 0}

Fail(p, prop, clause, r, detail) ==
  PrintT(ToJson(<<"VFAIL", prop, Programs[p].id, clause, <<r, detail>> >>))

\* one read of one program; returns TRUE (prints on failure)
JudgeRead(p, r) ==
  LET o == Programs[p].rd[r]
      S == SeenOf(p, o.id)                 \* strict
      L == SeenOf(NP + p, o.id)            \* lenient (superset)
      alts == ToSet(o.alts)
      reachedBound == \E v \in S : v # UNBOUND
      C == SeenOf(2 * NP + p, o.id)        \* strict, while crashing
      c1 == ((reachedBound \/ \E v \in C : v # UNBOUND) /\ Programs[p].c01) => (o.vis /\ ~o.e02 /\ ~o.e42 /\ o.assist)
      own == {v \in Sites(S) : v <= Programs[p].nbody}      \* binding sites of this body (same-scope clause of C02)
      c2 == (Programs[p].c02 /\ ~o.nolocal) => (own \subseteq alts /\ (o.locok => own \subseteq ToSet(o.loc)))
      c3a == Programs[p].c03 => (alts \subseteq (L \ {UNBOUND}))                       \* no phantom definition (-1 = builtin)
      c3b == Programs[p].c03 => (o.undef => UNBOUND \in L)                              \* "possibly undefined" only if witnessed
      c3c == (Programs[p].c03 /\ UNBOUND \in S /\ Sites(S) # {}) => o.undef           \* and always when witnessed at run time
      c3d == (Programs[p].c03 /\ L = {UNBOUND}) => o.e02                               \* never bound => Undefined name
      c17 == \A i \in 1..(Len(o.alts) - 1) : (o.alts[i] > 0 /\ o.alts[i + 1] > 0) => o.alts[i] < o.alts[i + 1]                  \* alternatives in source order (sites are numbered in source order)
  IN
  IF S = {} /\ L = {} /\ C = {} THEN TRUE           \* never reached by any execution: no clause applies
  ELSE /\ (IF c1 THEN TRUE ELSE Fail(p, "C01", "Visible", o.id, <<o.vis, o.e02, o.e42, o.assist>>))
       /\ (IF c2 THEN TRUE ELSE Fail(p, "C02", "DefIncluded", o.id, <<Sites(S), alts>>))
       /\ (IF c3a THEN TRUE ELSE Fail(p, "C03", "NoPhantom", o.id, <<alts, Sites(L)>>))
       /\ (IF c3b /\ c3c THEN TRUE ELSE Fail(p, "C03", "UndefExact", o.id, <<o.undef, S, L>>))
       /\ (IF c3d THEN TRUE ELSE Fail(p, "C03", "NeverBoundFlagged", o.id, <<L, o.e02>>))
       /\ (IF c17 \/ ~Programs[p].c17 THEN TRUE ELSE Fail(p, "C17", "SourceOrder", o.id, o.alts))

\* a binding some execution reads is not reported unused
JudgeUnused(p) ==
  LET used == UNION {Sites(SeenOf(p, Programs[p].rd[r].id)) : r \in 1..Len(Programs[p].rd)}
      bad == ToSet(Programs[p].unused) \cap used IN
  IF Programs[p].c02 /\ bad # {} THEN Fail(p, "C02", "NoFalseUnused", 0, bad) ELSE TRUE

Post ==
  /\ \A p \in 1..NP : (\A r \in 1..Len(Programs[p].rd) : JudgeRead(p, r)) /\ JudgeUnused(p)
  /\ PrintT(ToJson(<<"VDONE", "PYBIND", NP, NP, 0>>))
  \* the accumulated sets, for the evidence file and for diagnosis
  /\ PrintT(ToJson(<<"SEEN", [p \in 1..NP |-> [id |-> Programs[p].id, s |-> TLCGet(p), l |-> TLCGet(NP + p), c |-> TLCGet(2 * NP + p)]]>>))
=============================================================================
