------------------------------ MODULE Session ------------------------------
(* R-spec (requirement level) for C16: a session of the supp client as a user
   (and the operating system) observes it.  It is a trace specification: every
   case is an event log recorded from the REAL supp.remote.Environment, either
   driven line by line along behaviours of Startup.tla with process launch and
   connection replaced by fakes, or run against real server subprocesses.  One
   trace action consumes one event; the verdict clauses are exactly the
   property's:

     OneServer           at most one server process alive at any time, hence
                         exactly one launch per session epoch
     NoException         prepare / call / close deliver no exception to the
                         caller (except the report of a launch that failed)
     Answered            every operation that began has ended
     OwnReply            a call that returns returns the reply to ITS request (an event CallEnd whose info is
                         "mispaired" carries another call's reply: being answered means being answered oneself)
     CloseEndsSession    when close() returns, the server it was connected to
                         has exited

   An operation that overlaps an *effective* close() of another thread (one that
   sent 'close' or closed the connection) races with it: the property does not
   constrain such operations, and nothing is required of a run from the first
   such race on.

   Events: [e, t, k, res, cls, sid, info]
     PrepBegin/CallBegin/CloseBegin (t, k)    PrepEnd/CallEnd/CloseEnd (t, k, res ok|exc, cls, info)
     Launch(sid)  Connect(t, sid, res ok|fail)  CloseSent(t, sid)  ConnClosed(t, sid)
     ServerExit(sid, res = reason)  StarterDied(t, cls)                        *)
EXTENDS Naturals, Sequences, FiniteSets, TLC, Json, IOUtils

Cases == JsonDeserialize(IOEnv.VERIF_CASES)
NC == Len(Cases)

VARIABLES cid, l, live, bad,
          pend,     \* <<t, sid>>: close() of t began while connected to the live server sid
          mustExit  \* servers whose client completed an unraced close(): they have to exit
vars == <<cid, l, live, bad, pend, mustExit>>

Ev(c) == Cases[c].events
N(c) == Len(Ev(c))

IsBegin(e) == e.e \in {"PrepBegin", "CallBegin", "CloseBegin"}
IsEnd(e) == e.e \in {"PrepEnd", "CallEnd", "CloseEnd"}
Kind(e) == CASE e.e \in {"PrepBegin", "PrepEnd"} -> "prep"
             [] e.e \in {"CallBegin", "CallEnd"} -> "call"
             [] OTHER -> "close"

\* index of the End event matching the Begin at i (N+1 if the operation never ended)
EndOf(c, i) ==
  LET b == Ev(c)[i]
      js == {j \in (i + 1)..N(c) : IsEnd(Ev(c)[j]) /\ Ev(c)[j].t = b.t /\ Ev(c)[j].k = b.k}
  IN IF js = {} THEN N(c) + 1 ELSE CHOOSE j \in js : \A j2 \in js : j <= j2
BeginOf(c, j) ==
  LET e == Ev(c)[j]
      is == {i \in 1..(j - 1) : IsBegin(Ev(c)[i]) /\ Ev(c)[i].t = e.t /\ Ev(c)[i].k = e.k}
  IN IF is = {} THEN j ELSE CHOOSE i \in is : \A i2 \in is : i >= i2

\* intervals <<begin, end>> of the effective closes
CloseIvs(c) ==
  {<<i, EndOf(c, i)>> : i \in {i \in 1..N(c) :
      /\ Ev(c)[i].e = "CloseBegin"
      /\ \E m \in i..(IF EndOf(c, i) > N(c) THEN N(c) ELSE EndOf(c, i)) :
            Ev(c)[m].e \in {"CloseSent", "ConnClosed"} /\ Ev(c)[m].t = Ev(c)[i].t}}

Tainted(c, a, b) == \E iv \in CloseIvs(c) : iv[1] # a /\ iv[1] <= b /\ a <= iv[2]
\* a race (an operation overlapping somebody else's effective close) has begun at or before position p
RacedBy(c, p) ==
  \E i \in 1..N(c) : IsBegin(Ev(c)[i]) /\ i <= p /\ Tainted(c, i, EndOf(c, i))
                     /\ \E iv \in CloseIvs(c) : iv[1] # i /\ iv[1] <= p /\ iv[1] <= EndOf(c, i) /\ i <= iv[2]

LaunchFailedIn(c, a, b, t) ==
  \E m \in a..b : Ev(c)[m].e = "Connect" /\ Ev(c)[m].res = "fail" /\ Ev(c)[m].t = t

Fail(c, clause, detail) == PrintT(ToJson(<<"VFAIL", "C16", Cases[c].id, clause, detail>>))
Check(c, ok, clause, detail) == IF ok THEN TRUE ELSE Fail(c, clause, detail)

Init == /\ cid \in 1..NC
        /\ l = 1
        /\ live = {}
        /\ bad = FALSE
        /\ pend = {}
        /\ mustExit = {}

Consume(c) ==
  LET e == Ev(c)[l] IN
  /\ l <= N(c)
  /\ l' = l + 1
  /\ CASE e.e = "Launch" ->
            LET ok == RacedBy(c, l) \/ live = {} IN
            /\ live' = live \cup {e.sid}
            /\ bad' = (bad \/ ~ok)
            /\ Check(c, ok, "OneServer", l)
            /\ UNCHANGED <<pend, mustExit>>
       [] e.e = "ServerExit" ->
            /\ live' = live \ {e.sid} /\ UNCHANGED <<bad, pend, mustExit>>
       [] e.e = "CloseBegin" ->
            /\ pend' = {p \in pend : p[1] # e.t} \cup
                       {<<e.t, s>> : s \in {s \in live : \E m \in 1..l : Ev(c)[m].e = "Connect" /\ Ev(c)[m].res = "ok" /\ Ev(c)[m].sid = s}}
            /\ UNCHANGED <<live, bad, mustExit>>
       [] IsEnd(e) ->
            LET a == BeginOf(c, l)
                tainted == RacedBy(c, l)
                excOk == e.res = "ok" \/ tainted
                         \/ (Kind(e) = "call" /\ LaunchFailedIn(c, a, l, e.t))
                cleanClose == Kind(e) = "close" /\ e.res = "ok" /\ ~tainted
            IN
            /\ UNCHANGED <<live, pend>>
            /\ mustExit' = IF cleanClose THEN mustExit \cup {p[2] : p \in {p \in pend : p[1] = e.t}} ELSE mustExit
            /\ LET own == tainted \/ ~(Kind(e) = "call" /\ e.res = "ok" /\ e.info = "mispaired") IN
               /\ bad' = (bad \/ ~excOk \/ ~own)
               /\ Check(c, excOk, "NoException", <<l, e.t, e.cls>>)
               /\ Check(c, own, "OwnReply", <<l, e.t, e.k>>)
       [] OTHER -> UNCHANGED <<live, bad, pend, mustExit>>
  /\ UNCHANGED cid

\* after the last event: every operation that began has ended (unless it was racing a close)
Finish(c) ==
  /\ l = N(c) + 1
  /\ l' = l + 1
  /\ LET open == {i \in 1..N(c) : IsBegin(Ev(c)[i]) /\ EndOf(c, i) > N(c)}
         ok == RacedBy(c, N(c)) \/ (open = {} /\ Cases[c].deadlock = FALSE)
         ok2 == mustExit \cap live = {} IN
     /\ bad' = (bad \/ ~ok \/ ~ok2)
     /\ Check(c, ok, "Answered", open)
     /\ Check(c, ok2, "CloseEndsSession", mustExit \cap live)
  /\ UNCHANGED <<cid, live, pend, mustExit>>

Next == Consume(cid) \/ Finish(cid)
Spec == Init /\ [][Next]_vars

\* bookkeeping: which cases were consumed completely, which failed
Done == l = N(cid) + 2
Count == /\ (Done => TLCSet(1, TLCGet(1) \cup {cid}))
         /\ ((Done /\ bad) => TLCSet(2, TLCGet(2) \cup {cid}))
ASSUME TLCSet(1, {}) /\ TLCSet(2, {})
Post == /\ PrintT(ToJson(<<"VDONE", "C16", NC, Cardinality(TLCGet(1)), Cardinality(TLCGet(2))>>))
        /\ Cardinality(TLCGet(1)) = NC
=============================================================================
