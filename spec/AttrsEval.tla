----------------------------- MODULE AttrsEval -----------------------------
(* Attrs.tla applied to given hierarchies (4 and 5 classes, up to three bases per class, depth 4: more than the
   exhaustive enumeration over 3 classes reaches): the driver samples candidates, this module keeps those without
   repeated ancestors, checks the same invariants on them and prints the same record as Attrs!Emit.             *)
EXTENDS Attrs, IOUtils
Cands == JsonDeserialize(IOEnv.VERIF_CASES)
ToSet(q) == {q[k] : k \in 1..Len(q)}
AsHier(c) == [bases |-> c.bases, own |-> [i \in Classes |-> ToSet(c.own[i])], selfs |-> [i \in Classes |-> ToSet(c.selfs[i])]]
Proper(c) == Len(c.bases) = N /\ (\A i \in Classes : \A k \in 1..Len(c.bases[i]) : c.bases[i][k] < i) /\ NoRepeat(c.bases)
EvalInit == hier \in {AsHier(Cands[i]) : i \in {j \in 1..Len(Cands) : Proper(Cands[j])}}
EvalSpec == EvalInit /\ [][UNCHANGED hier]_hier
=============================================================================
