----------------------------- MODULE PyBindEnum -----------------------------
(* Conformance configuration of PyBind: the decision and observation histories are
   part of the state, so every complete execution is a distinct terminal state; each
   is printed as JSON and compared, both ways, with the executions of the real
   interpreter (strict semantics only: CPython has no lenient mode).            *)
EXTENDS PyBind
Init == PInit /\ lenient = FALSE
Next == PNext
Spec == Init /\ [][Next]_pvars
Emit == Terminated => PrintT(ToJson([pid |-> Programs[pid].id, dec |-> dec, obs |-> obs, pend |-> pend.t]))
=============================================================================
