---------------------------- MODULE HistoryCheck ----------------------------
(* Judge part of History.tla (kept in its own module because it has its own variables). *)
EXTENDS Naturals, Sequences, FiniteSets, TLC, Json, IOUtils
Cases == JsonDeserialize(IOEnv.VERIF_CASES)
NC == Len(Cases)
VARIABLES cid, l, bad
vars == <<cid, l, bad>>
H(c) == Cases[c].hist
Init == cid \in 1..NC /\ l = 1 /\ bad = FALSE
Query(c) ==
  /\ l <= Len(H(c))
  /\ l' = l + 1
  /\ LET site == H(c)[l][1]
         ok == H(c)[l][2] = Cases[c].fresh[site] IN
     /\ bad' = (bad \/ ~ok)
     /\ IF ok THEN TRUE ELSE PrintT(ToJson(<<"VFAIL", "C04", Cases[c].id, "Independent", <<l, site>> >>))
  /\ UNCHANGED cid
Next == Query(cid)
Spec == Init /\ [][Next]_vars
Done == l = Len(H(cid)) + 1
Count == /\ (Done => TLCSet(1, TLCGet(1) \cup {cid}))
         /\ ((Done /\ bad) => TLCSet(2, TLCGet(2) \cup {cid}))
ASSUME TLCSet(1, {}) /\ TLCSet(2, {})
Post == /\ PrintT(ToJson(<<"VDONE", "C04", NC, Cardinality(TLCGet(1)), Cardinality(TLCGet(2))>>))
        /\ Cardinality(TLCGet(1)) = NC
=============================================================================
