------------------------------ MODULE LintCheck ------------------------------
(* Judge part of LintRules.tla.
   case: [id, expected ("W01"|"W02"|"none"), name, pos |-> << <<line, col>>, ... >> (one per binding of the identifier), reports |-> << [code, name, line, col], ... >>
          (every W01/W02 of the module), others |-> names of the other never-read identifiers the module contains by construction]
   Clauses: Exact (reported iff expected, with the expected code), Once, OwnPosition (line/col of the report are the
   binding's own), NothingElse (no other identifier is reported unused, except those listed in `others` with their own
   expectation - real files only).                                            *)
EXTENDS Naturals, Sequences, FiniteSets, TLC, Json, IOUtils
Cases == JsonDeserialize(IOEnv.VERIF_CASES)
NC == Len(Cases)
VARIABLES cid, done
Mine(c) == {i \in 1..Len(Cases[c].reports) : Cases[c].reports[i].name = Cases[c].name}
Fail(c, clause, d) == PrintT(ToJson(<<"VFAIL", "C10", Cases[c].id, clause, d>>))
Init == cid \in 1..NC /\ done = FALSE
Judge ==
  /\ ~done /\ done' = TRUE /\ UNCHANGED cid
  /\ LET c == cid
         r == Cases[c]
         mine == Mine(c)
         exact == IF r.expected = "none" THEN mine = {}
                  ELSE mine # {} /\ \A i \in mine : r.reports[i].code = r.expected
         \* r.pos: the own positions of the bindings of that identifier (one per binding; usually one)
         once == Cardinality(mine) <= Len(r.pos)
         ownpos == mine = {} \/ {<<r.reports[i].line, r.reports[i].col>> : i \in mine} = {<<r.pos[k][1], r.pos[k][2]>> : k \in 1..Len(r.pos)}
         nothing == \A i \in 1..Len(r.reports) : i \in mine \/ r.reports[i].name \in {r.others[k] : k \in 1..Len(r.others)} IN
     /\ (IF exact THEN TRUE ELSE Fail(c, "Exact", <<r.expected, [i \in mine |-> r.reports[i].code]>>))
     /\ (IF once THEN TRUE ELSE Fail(c, "Once", Cardinality(mine)))
     /\ (IF ownpos \/ ~exact THEN TRUE ELSE Fail(c, "OwnPosition", r.pos))
     /\ (IF nothing THEN TRUE ELSE Fail(c, "NothingElse", r.reports))
     /\ TLCSet(1, TLCGet(1) \cup {c})
     /\ (IF exact /\ once /\ ownpos /\ nothing THEN TRUE ELSE TLCSet(2, TLCGet(2) \cup {c}))
Spec == Init /\ [][Judge]_<<cid, done>>
ASSUME TLCSet(1, {}) /\ TLCSet(2, {})
Post == /\ PrintT(ToJson(<<"VDONE", "C10", NC, Cardinality(TLCGet(1)), Cardinality(TLCGet(2))>>))
        /\ Cardinality(TLCGet(1)) = NC
=============================================================================
