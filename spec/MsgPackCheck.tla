---------------------------- MODULE MsgPackCheck ----------------------------
(* Judge of what the real supp.umsgpack did (C14), against the reference model.
   case: [id, kind, enc, shape, refuse, big,
          loads |-> [kind ("ok"|"exc"|"none"), cls, shape, itemsok],
          dumps |-> [kind ("ok"|"exc"|"none"), cls, enc, restok |-> [h1, h3, h5]],
          cuts  |-> <<<<p, outcome>>, ...>>]                                  *)
EXTENDS MsgPack, Json, IOUtils
Cases == JsonDeserialize(IOEnv.VERIF_CASES)
NC == Len(Cases)
VARIABLES cid, done
Fail(c, clause, detail) == PrintT(ToJson(<<"VFAIL", "C14", Cases[c].id, clause, detail>>))
Check(c, ok, clause, detail) == IF ok THEN TRUE ELSE Fail(c, clause, detail)

\* reference validation (any failure here is a machinery failure, reported under the clause "REF")
RefOK(c) ==
  LET r == Cases[c] IN
  IF r.refuse \/ r.enc = <<>> \/ r.kind = "random" THEN TRUE      \* "random": enc is the implementation's own output
  ELSE IF r.big THEN ContainerHeader(r.enc).ok /\ ContainerHeader(r.enc).n = r.shape.n /\ ContainerHeader(r.enc).t = r.shape.t
  ELSE IF r.shape.t = "reserved" THEN Decode(r.enc) = Err("reserved")
  ELSE Decode(r.enc).ok /\ Decode(r.enc).v = r.shape

Accepts(c) ==
  LET r == Cases[c] IN
  IF r.loads.kind = "none" THEN TRUE
  ELSE IF r.shape.t = "reserved" THEN r.loads.kind = "exc"
  ELSE /\ r.loads.kind = "ok"
       /\ IF r.big THEN r.loads.shape.t = r.shape.t /\ r.loads.shape.n = r.shape.n /\ r.loads.itemsok
          ELSE r.loads.shape = r.shape /\ r.loads.itemsok

\* every proper prefix: the reference says insufficient, and so must the implementation
Prefixes(c) ==
  LET r == Cases[c] IN
  \A i \in 1..Len(r.cuts) :
     LET p == r.cuts[i][1] IN
     /\ (r.big \/ Decode(Trunc(r.enc, p)) = Err("insufficient"))
     /\ r.cuts[i][2] = "InsufficientDataException"

\* dumps(v) is a valid encoding of v: the reference decoder reads the value back
Valid(c) ==
  LET r == Cases[c] IN
  IF r.dumps.kind = "none" THEN TRUE
  ELSE IF r.refuse THEN r.dumps.kind = "exc"
  ELSE /\ r.dumps.kind = "ok"
       /\ IF r.big
          THEN LET h == ContainerHeader(r.dumps.enc) IN
               /\ h.ok /\ h.t = r.shape.t /\ h.n = r.shape.n
               /\ (CASE h.nx = 2 -> r.dumps.restok.h1 [] h.nx = 4 -> r.dumps.restok.h3 [] OTHER -> r.dumps.restok.h5)
          ELSE Decode(r.dumps.enc).ok /\ Decode(r.dumps.enc).v = r.shape

Init == cid \in 1..NC /\ done = FALSE
Judge == /\ ~done /\ done' = TRUE /\ UNCHANGED cid
         /\ LET r == RefOK(cid)  a == Accepts(cid)  p == Prefixes(cid)  v == Valid(cid) IN
            /\ Check(cid, r, "REF", Cases[cid].kind)
            /\ Check(cid, a, "Accepts", <<Cases[cid].kind, Cases[cid].loads.kind, Cases[cid].loads.cls>>)
            /\ Check(cid, p, "Prefixes", Cases[cid].kind)
            /\ Check(cid, v, "Valid", <<Cases[cid].kind, Cases[cid].dumps.kind, Cases[cid].dumps.cls>>)
            /\ TLCSet(1, TLCGet(1) \cup {cid})
            /\ IF r /\ a /\ p /\ v THEN TRUE ELSE TLCSet(2, TLCGet(2) \cup {cid})
Next == Judge
Spec == Init /\ [][Next]_<<cid, done>>
ASSUME TLCSet(1, {}) /\ TLCSet(2, {})
Post == /\ PrintT(ToJson(<<"VDONE", "C14", NC, Cardinality(TLCGet(1)), Cardinality(TLCGet(2))>>))
        /\ Cardinality(TLCGet(1)) = NC
=============================================================================
