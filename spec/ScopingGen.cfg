SPECIFICATION GenSpec
CONSTANT MaxDepth = 3
INVARIANT GenEmit
CHECK_DEADLOCK FALSE
