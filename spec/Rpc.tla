-------------------------------- MODULE Rpc --------------------------------
(* M-spec of the msgpack-RPC loop: Environment._call (client) and Server.run /
   Server.process (server), one action per step of either loop.

   client  _call:   send_bytes(dumps((name, args, kwargs)))      ClientSend
                    loads(recv_bytes()) -> return / raise         ClientRecv
   server  run:     conn.poll / recv_bytes / loads                ServerRecv
                    args[0] == 'close' -> conn.close(); break     ServerClose
                    self.process(args...)  (try/except Exception)   ServerProcess
                    dumps((result, is_ok))  /  fallback           ServerSerialise
                    conn.send_bytes(content)                      ServerSend

   Request classes (the alphabet of C15):
     cfg      configure with a valid config                ok, sets `configured`
     cfgbad   configure raising (no 'sources')             error
     api      assist / location / lint with valid args     ok iff configured, else error (no project yet)
     raises   assist / location on a text that does not
              parse with the cursor mark                    error (SyntaxError) iff configured
     eval     eval returning a serialisable value           ok
     evalexc  eval raising an Exception                     error
     unknown  a method the server does not have            error
     badargs  wrong number / names of arguments            error
     unser    eval returning something msgpack cannot
              encode                                        processed ok, serialisation falls back to an error reply
   `fatal` (eval raising BaseException, e.g. SystemExit) is modelled too, as the
   named deviation ServerDies: it is outside the property's alphabet ("a request
   that raises" = raises an Exception) and only enabled when AllowFatal.      *)
EXTENDS Naturals, Sequences, FiniteSets, TLC

CONSTANTS MaxLen, AllowFatal

Classes == {"cfg", "cfgbad", "api", "raises", "eval", "evalexc", "unknown", "badargs", "unser"}
            \cup (IF AllowFatal THEN {"fatal"} ELSE {})

VARIABLES reqs,        \* requests issued so far (sequence of classes); grows nondeterministically
          cstate,      \* client: "idle" | "sent"
          c2s, s2c,    \* the two directions of the connection (queues of messages)
          sstate,      \* server: "polling" | "processing" | "serialising" | "sending" | "exited"
          cur,         \* the request being served: [k, cls, outcome]
          configured,  \* server has a project
          replies,     \* what the client got, in order: <<k, outcome>>
          closed       \* the client sent 'close'

vars == <<reqs, cstate, c2s, s2c, sstate, cur, configured, replies, closed>>

None == [k |-> 0, cls |-> "", outcome |-> ""]

Init == /\ reqs = <<>> /\ cstate = "idle" /\ c2s = <<>> /\ s2c = <<>>
        /\ sstate = "polling" /\ cur = None /\ configured = FALSE
        /\ replies = <<>> /\ closed = FALSE

\* what the in-process API does for a request of class c when the project is (not) configured
Expected(c, conf) ==
  CASE c = "cfg" -> "ok"
    [] c = "api" -> IF conf THEN "ok" ELSE "error"
    [] c = "raises" -> "error"
    [] c = "eval" -> "ok"
    [] OTHER -> "error"

ClientSend(c) ==
  /\ cstate = "idle" /\ ~closed /\ Len(reqs) < MaxLen
  /\ reqs' = Append(reqs, c)
  /\ c2s' = Append(c2s, [k |-> Len(reqs) + 1, cls |-> c])
  /\ cstate' = "sent"
  /\ UNCHANGED <<s2c, sstate, cur, configured, replies, closed>>

ClientClose ==
  /\ cstate = "idle" /\ ~closed
  /\ c2s' = Append(c2s, [k |-> 0, cls |-> "close"])
  /\ closed' = TRUE
  /\ UNCHANGED <<reqs, cstate, s2c, sstate, cur, configured, replies>>

ServerRecv ==
  /\ sstate = "polling" /\ c2s # <<>>
  /\ LET m == Head(c2s) IN
     /\ c2s' = Tail(c2s)
     /\ IF m.cls = "close"
        THEN sstate' = "exited" /\ cur' = None
        ELSE sstate' = "processing" /\ cur' = [k |-> m.k, cls |-> m.cls, outcome |-> ""]
  /\ UNCHANGED <<reqs, cstate, s2c, configured, replies, closed>>

\* getattr(self, name)(args..., kwargs...) inside try / except Exception
ServerProcess ==
  /\ sstate = "processing"
  /\ LET c == cur.cls IN
     /\ configured' = (configured \/ c = "cfg")
     /\ cur' = [cur EXCEPT !.outcome = IF c = "unser" THEN "unser" ELSE Expected(c, configured)]
     /\ sstate' = IF c = "fatal" THEN "exited" ELSE "serialising"     \* ServerDies: BaseException is not caught
  /\ UNCHANGED <<reqs, cstate, c2s, s2c, replies, closed>>

\* dumps((result, is_ok)); on failure the fixed error reply
ServerSerialise ==
  /\ sstate = "serialising"
  /\ cur' = [cur EXCEPT !.outcome = IF cur.outcome = "unser" THEN "error" ELSE @]
  /\ sstate' = "sending"
  /\ UNCHANGED <<reqs, cstate, c2s, s2c, configured, replies, closed>>

ServerSend ==
  /\ sstate = "sending"
  /\ s2c' = Append(s2c, [k |-> cur.k, outcome |-> cur.outcome])
  /\ sstate' = "polling" /\ cur' = None
  /\ UNCHANGED <<reqs, cstate, c2s, configured, replies, closed>>

ClientRecv ==
  /\ cstate = "sent" /\ s2c # <<>>
  /\ replies' = Append(replies, <<Head(s2c).k, Head(s2c).outcome>>)
  /\ s2c' = Tail(s2c)
  /\ cstate' = "idle"
  /\ UNCHANGED <<reqs, c2s, sstate, cur, configured, closed>>

Next == (\E c \in Classes : ClientSend(c)) \/ ClientClose \/ ServerRecv \/ ServerProcess
        \/ ServerSerialise \/ ServerSend \/ ClientRecv
Spec == Init /\ [][Next]_vars
FairSpec == Spec /\ WF_vars(ServerRecv \/ ServerProcess \/ ServerSerialise \/ ServerSend) /\ WF_vars(ClientRecv)

---------------------------------------------------------------------------
\* the project state the k-th request sees, from the request history alone
ConfBefore(k) == \E j \in 1..(k - 1) : reqs[j] = "cfg"

\* replies pair with requests in order
Paired == \A j \in 1..Len(replies) : replies[j][1] = j
\* each reply is what the in-process API gives for that request: in particular it does not
\* depend on how many failing requests came before
Transparent == \A j \in 1..Len(replies) : replies[j][2] = Expected(reqs[j], ConfBefore(j))
\* no request of the alphabet ends the server
Alive == (sstate = "exited") => (closed \/ AllowFatal)
\* the client never waits for a reply that cannot come
NoHang == (cstate = "sent" /\ sstate = "exited") => AllowFatal
\* the same without the escape: violated as soon as the named deviation ServerDies is enabled
AliveStrict == (sstate = "exited") => closed
NoHangStrict == ~(cstate = "sent" /\ sstate = "exited")
TypeOK == /\ cstate \in {"idle", "sent"} /\ sstate \in {"polling", "processing", "serialising", "sending", "exited"}
          /\ Len(c2s) <= 2 /\ Len(s2c) <= 1
\* every request is eventually answered (checked under FairSpec)
Answered == \A k \in 1..MaxLen : [](Len(reqs) >= k => <>(Len(replies) >= k))
=============================================================================
