----------------------------- MODULE ApiContract -----------------------------
(* R-spec for C08 (the API is total) as a trace specification, plus the typing-state mutation machine.

   Mutations (MutGen.cfg): TLC enumerates every sequence of at most two typing-state mutations
       TruncateLineAtCursor, TrailingDot, DeleteLine, TruncateFile, MoveReturnOutside, HalfTypedImport, UnclosedBracket
   which the driver applies to real files at seeded cursor positions.

   Judge: a case is a batch of real API calls on one text:
     [id, parses |-> does the plain text parse (compile()),
      e01 |-> [msg, line, col] of CPython's SyntaxError ("" / 0 / 0 if it parses),
      calls |-> << [op ("lint" | "assist" | "location"), marked |-> does the text with the cursor mark inserted parse,
                    outcome ("ok" | "SyntaxError" | other exception class | "timeout"), wellformed,
                    ne01 (number of E01 entries), e01same (the E01 entry equals CPython's message, line, offset)] >>]
   Clauses:
     LintTotal     lint never raises, returns a well-formed list, exactly one E01 iff the text does not parse, equal to CPython's
     CursorTotal   assist / location: well-formed result, or SyntaxError and then only if the marked text does not parse
     Terminates    no call exceeds the wall-clock limit                                                     *)
EXTENDS Naturals, Sequences, FiniteSets, TLC, Json

Muts == {"TruncateLineAtCursor", "TrailingDot", "DeleteLine", "TruncateFile", "MoveReturnOutside", "HalfTypedImport", "UnclosedBracket"}
MutSeqs == {<<>>} \cup {<<m>> : m \in Muts} \cup {<<m, k>> : m \in Muts, k \in Muts}
VARIABLE ms
GenInit == ms \in MutSeqs
GenSpec == GenInit /\ [][UNCHANGED ms]_ms
GenEmit == PrintT(ToJson([muts |-> ms]))
=============================================================================
