------------------------------- MODULE PyScope -------------------------------
(* R-spec: CPython's name resolution ACROSS scopes, as a small-step transition system with a heap of
   frames.  PyBind.tla is the reference for control flow inside one body; this module is the reference
   for what C01 quantifies over beyond one body: nested functions, lambdas, classes, comprehensions,
   closures (cells shared with the defining frame instance), global and nonlocal declarations, calls.
   It is validated two-way against the real interpreter exactly like PyBind (PyScopeEnum.tla +
   vlib/gen/mscope.py: every execution TLC enumerates is an execution of CPython with the same
   decisions and observations, and vice versa).

   A program has scopes (scope 1 = the module)
       [kind ("module" | "function" | "lambda" | "class" | "comp"), parent, root (node), site (binding site of
        the def / lambda, 0 otherwise), params << [n, s] >> (for a comprehension: its target), gl, nl (names
        declared global / nonlocal)]
   and nodes [k, c, n, s, sc, o]  (o = the scope whose code the node belongs to):
       seq     c = children in order
       bind    n := site s                                   read    observation point: read id s of name n
       if      c = <<test, body, orelse>>  one decision      for     c = <<iter, body>>, target n := s per trip, 0..2 trips
       def     n := the function (site s) of scope sc, closed over the CURRENT frame (def and `n = lambda ..`)
       class   c = <<>>: runs the body of scope sc in a new frame now, then n := site s
       comp    runs scope sc (a comprehension; one decision: one trip or none) in a new frame now
       wbind   a walrus inside a comprehension: n := site s in the frame of the scope the comprehension is written in
       wdef    the same with a lambda as the value: n := the function (site s) of scope sc, closed over the comprehension's frame
       call    read id s of name n, then - if the value is a function and the call budget allows - run its scope
               in a new frame whose parent is the frame the function was DEFINED in; parameters are bound to their sites
       return  leave the innermost call
   The static rule (which scope owns a name) is the symbol-table rule of Scoping.tla, here computed from the
   program text: BoundIn(sc) = names bound by the nodes of sc and its parameters; a name bound in a scope and not
   declared is Local; a free name belongs to the nearest enclosing function-like scope in which it is local,
   skipping class scopes, unless a `global` declaration is met first; otherwise it is global (then builtin).
   The dynamic rule: a local of a function-like scope is read from its frame (unbound: UnboundLocalError, a
   NameError); a class body reads its own frame first and falls back to globals/builtins (LOAD_NAME); a free
   variable is read from the frame instance the closure was created in (unbound: NameError).
   An uncaught NameError ends the execution (these programs have no try statement).                       *)
EXTENDS Integers, Sequences, FiniteSets, TLC, Json, IOUtils

VARIABLES pid, k, heap, ncalls, dec, obs, crash
svars == <<pid, k, heap, ncalls, dec, obs, crash>>

Programs == JsonDeserialize(IOEnv.VERIF_CASES)
NP == Len(Programs)
N(i) == Programs[pid].nodes[i]
S(i) == Programs[pid].scopes[i]
NNodes == Len(Programs[pid].nodes)
UNBOUND == 0
BUILTIN == -1
MaxCalls == 4

Val(s, fr) == [s |-> s, fr |-> fr]
NOVAL == Val(UNBOUND, 0)
ToSet(q) == {q[i] : i \in 1..Len(q)}
Frame(n, ph, fr, aux) == [n |-> n, ph |-> ph, fr |-> fr, aux |-> aux]
Top == k[Len(k)]
Pop == SubSeq(k, 1, Len(k) - 1)
SetTop(f) == [k EXCEPT ![Len(k)] = f]
PushOn(s, n, fr) == IF n = 0 THEN s ELSE Append(s, Frame(n, 0, fr, 0))

\* ---- static scoping -----------------------------------------------------------------------------
BindKinds == {"bind", "for", "def", "class"}
ParamNames(sc) == {S(sc).params[j].n : j \in 1..Len(S(sc).params)}
RECURSIVE NonComp(_)
NonComp(sc) == IF S(sc).kind = "comp" THEN NonComp(S(sc).parent) ELSE sc      \* the scope a comprehension is written in
\* a walrus inside a comprehension (node kind wbind, owned by the comprehension) binds in the scope the comprehension is written in
BoundIn(sc) == {N(i).n : i \in {j \in 1..NNodes : N(j).o = sc /\ N(j).k \in BindKinds}} \cup ParamNames(sc)
               \cup (IF S(sc).kind = "comp" THEN {} ELSE {N(i).n : i \in {j \in 1..NNodes : N(j).k \in {"wbind", "wdef"} /\ NonComp(N(j).o) = sc}})
DeclGlobal(sc, n) == n \in ToSet(S(sc).gl)
DeclNonlocal(sc, n) == n \in ToSet(S(sc).nl)
Local(sc, n) == n \in BoundIn(sc) /\ ~DeclGlobal(sc, n) /\ ~DeclNonlocal(sc, n)
FuncLike(sc) == S(sc).kind \in {"function", "lambda", "comp"}

\* ---- frames ---------------------------------------------------------------------------------------
\* heap[fr] = [sc, up (the frame this one is nested in: where the function was defined / the class or
\*             comprehension was executed), env]
RECURSIVE FreeOwner(_, _)
FreeOwner(fr, n) ==          \* the frame that owns n for code nested in frame fr (fr inclusive); 0 = global
  IF fr = 0 THEN 0
  ELSE LET sc == heap[fr].sc IN
       IF sc = 1 THEN 0
       ELSE IF ~FuncLike(sc) THEN FreeOwner(heap[fr].up, n)
       ELSE IF DeclGlobal(sc, n) THEN 0
       ELSE IF Local(sc, n) THEN fr
       ELSE FreeOwner(heap[fr].up, n)

OwnerFrame(fr, n) ==         \* 1 = the module frame
  LET sc == heap[fr].sc IN
  IF sc = 1 \/ DeclGlobal(sc, n) THEN 1
  ELSE IF DeclNonlocal(sc, n) \/ ~Local(sc, n)
       THEN LET o == FreeOwner(heap[fr].up, n) IN IF o = 0 THEN 1 ELSE o
       ELSE fr

EnvGet(fr, n) == IF n \in DOMAIN heap[fr].env THEN heap[fr].env[n] ELSE NOVAL
GlobalGet(n) == IF EnvGet(1, n).s # UNBOUND THEN EnvGet(1, n)
                ELSE IF n \in ToSet(Programs[pid].builtins) THEN Val(BUILTIN, 0) ELSE NOVAL
Get(fr, n) ==
  LET o == OwnerFrame(fr, n) IN
  IF o = 1 THEN GlobalGet(n)
  ELSE IF o = fr /\ S(heap[fr].sc).kind = "class" /\ EnvGet(fr, n).s = UNBOUND THEN GlobalGet(n)   \* LOAD_NAME
  ELSE EnvGet(o, n)
SetIn(h, fr, n, v) == [h EXCEPT ![fr].env = [x \in (DOMAIN @) \cup {n} |-> IF x = n THEN v ELSE @[x]]]
Bind(fr, n, v) == SetIn(heap, OwnerFrame(fr, n), n, v)
EmptyEnv == [x \in {} |-> NOVAL]
ParamEnv(sc) == [x \in ParamNames(sc) |-> Val(S(sc).params[CHOOSE j \in 1..Len(S(sc).params) : S(sc).params[j].n = x].s, 0)]
NewFrame(sc, up, env) == [sc |-> sc, up |-> up, env |-> env]

IsDefSite(s) == \E i \in 1..Len(Programs[pid].scopes) : S(i).site = s /\ S(i).kind \in {"function", "lambda"}
ScopeOfSite(s) == CHOOSE i \in 1..Len(Programs[pid].scopes) : S(i).site = s

RECURSIVE FrameNonComp(_)
FrameNonComp(fr) == IF S(heap[fr].sc).kind = "comp" THEN FrameNonComp(heap[fr].up) ELSE fr

RECURSIVE PopToMarker(_)
PopToMarker(s) == IF s = <<>> THEN <<>>
                  ELSE IF s[Len(s)].n = 0 THEN SubSeq(s, 1, Len(s) - 1)
                  ELSE PopToMarker(SubSeq(s, 1, Len(s) - 1))

SInit == /\ pid \in 1..NP
         /\ k = << Frame(S(1).root, 0, 1, 0) >>
         /\ heap = << NewFrame(1, 0, EmptyEnv) >>
         /\ ncalls = 0 /\ dec = <<>> /\ obs = <<>> /\ crash = FALSE

Step ==
  /\ k # <<>>
  /\ LET f == Top IN
     IF f.n = 0
     THEN k' = Pop /\ UNCHANGED <<heap, ncalls, dec, obs, crash>>                 \* the body of a call ran to its end
     ELSE LET nd == N(f.n) IN
       CASE nd.k = "seq" ->
              /\ k' = IF f.ph < Len(nd.c)
                      THEN PushOn(SetTop(Frame(f.n, f.ph + 1, f.fr, 0)), nd.c[f.ph + 1], f.fr)
                      ELSE Pop
              /\ UNCHANGED <<heap, ncalls, dec, obs, crash>>
         [] nd.k = "bind" ->
              /\ heap' = Bind(f.fr, nd.n, Val(nd.s, 0)) /\ k' = Pop /\ UNCHANGED <<ncalls, dec, obs, crash>>
         [] nd.k = "read" ->
              LET v == Get(f.fr, nd.n) IN
              /\ obs' = Append(obs, <<nd.s, v.s>>)
              /\ crash' = (v.s = UNBOUND)
              /\ k' = IF v.s = UNBOUND THEN <<>> ELSE Pop
              /\ UNCHANGED <<heap, ncalls, dec>>
         [] nd.k = "if" ->
              IF f.ph = 0
              THEN /\ k' = PushOn(SetTop(Frame(f.n, 1, f.fr, 0)), nd.c[1], f.fr)
                   /\ UNCHANGED <<heap, ncalls, dec, obs, crash>>
              ELSE \E b \in {0, 1} :
                     /\ dec' = Append(dec, b)
                     /\ k' = PushOn(Pop, nd.c[b + 2], f.fr)
                     /\ UNCHANGED <<heap, ncalls, obs, crash>>
         [] nd.k = "for" ->          \* aux = trips so far
              IF f.ph = 0
              THEN /\ k' = PushOn(SetTop(Frame(f.n, 1, f.fr, 0)), nd.c[1], f.fr)
                   /\ UNCHANGED <<heap, ncalls, dec, obs, crash>>
              ELSE \/ /\ f.aux < 2
                      /\ dec' = Append(dec, 1)
                      /\ heap' = Bind(f.fr, nd.n, Val(nd.s, 0))
                      /\ k' = PushOn(SetTop(Frame(f.n, 1, f.fr, f.aux + 1)), nd.c[2], f.fr)
                      /\ UNCHANGED <<ncalls, obs, crash>>
                   \/ /\ dec' = Append(dec, 0)
                      /\ k' = Pop
                      /\ UNCHANGED <<heap, ncalls, obs, crash>>
         [] nd.k = "def" ->
              /\ heap' = Bind(f.fr, nd.n, Val(nd.s, f.fr)) /\ k' = Pop /\ UNCHANGED <<ncalls, dec, obs, crash>>
         [] nd.k = "class" ->
              IF f.ph = 0
              THEN /\ heap' = Append(heap, NewFrame(nd.sc, f.fr, EmptyEnv))
                   /\ k' = PushOn(SetTop(Frame(f.n, 1, f.fr, 0)), S(nd.sc).root, Len(heap) + 1)
                   /\ UNCHANGED <<ncalls, dec, obs, crash>>
              ELSE /\ heap' = Bind(f.fr, nd.n, Val(nd.s, 0)) /\ k' = Pop /\ UNCHANGED <<ncalls, dec, obs, crash>>
         [] nd.k = "comp" ->         \* one decision: the iterable yields one item or none
              IF f.ph = 0
              THEN \/ /\ dec' = Append(dec, 1)
                      /\ heap' = Append(heap, NewFrame(nd.sc, f.fr, ParamEnv(nd.sc)))
                      /\ k' = PushOn(SetTop(Frame(f.n, 1, f.fr, 0)), S(nd.sc).root, Len(heap) + 1)
                      /\ UNCHANGED <<ncalls, obs, crash>>
                   \/ /\ dec' = Append(dec, 0)
                      /\ k' = Pop
                      /\ UNCHANGED <<heap, ncalls, obs, crash>>
              ELSE k' = Pop /\ UNCHANGED <<heap, ncalls, dec, obs, crash>>
         [] nd.k = "wbind" ->
              /\ heap' = Bind(FrameNonComp(f.fr), nd.n, Val(nd.s, 0)) /\ k' = Pop /\ UNCHANGED <<ncalls, dec, obs, crash>>
         [] nd.k = "wdef" ->         \* (n := lambda ..) inside a comprehension: the function is closed over the comprehension's frame
              /\ heap' = Bind(FrameNonComp(f.fr), nd.n, Val(nd.s, f.fr)) /\ k' = Pop /\ UNCHANGED <<ncalls, dec, obs, crash>>
         [] nd.k = "call" ->
              LET v == Get(f.fr, nd.n) IN
              /\ obs' = Append(obs, <<nd.s, v.s>>)
              /\ crash' = (v.s = UNBOUND)
              /\ IF v.s = UNBOUND THEN k' = <<>> /\ UNCHANGED <<heap, ncalls>>
                 ELSE IF IsDefSite(v.s) /\ ncalls < MaxCalls
                 THEN LET sc == ScopeOfSite(v.s) IN
                      /\ heap' = Append(heap, NewFrame(sc, v.fr, ParamEnv(sc)))
                      /\ k' = PushOn(Append(Pop, Frame(0, 0, f.fr, 0)), S(sc).root, Len(heap) + 1)
                      /\ ncalls' = ncalls + 1
                 ELSE k' = Pop /\ UNCHANGED <<heap, ncalls>>
              /\ UNCHANGED dec
         [] nd.k = "return" ->
              /\ k' = PopToMarker(k) /\ UNCHANGED <<heap, ncalls, dec, obs, crash>>
  /\ UNCHANGED pid

Terminated == k = <<>>
SNext == Step
=============================================================================
