----------------------------- MODULE CacheTrace -----------------------------
(* R-spec for C09 as a trace specification.  A case is one history replayed on
   the real file system against ONE long-lived supp Project (every call inside
   check_changes()) and, at every request, a NEWLY CREATED Project:

     event  [op |-> "create" | "rewrite" | "touch", m, ver]        disk operation (mtime strictly increases)
            [op |-> "request", long, fresh, lm, fm]                 long / fresh: canonical text of the complete
                                                                   replies (assist x3, location, lint) of the
                                                                   long-lived and of the fresh project;
                                                                   lm / fm: the version markers found in them
   The specification tracks the disk state from the events.  Reference
   validation: the fresh project must see exactly the markers of the modules
   reachable on that disk state (otherwise the record is not consumed: machinery
   failure).  Property (C09): long = fresh, for the whole reply.              *)
EXTENDS Naturals, Sequences, FiniteSets, TLC, Json, IOUtils

Cases == JsonDeserialize(IOEnv.VERIF_CASES)
NC == Len(Cases)
VARIABLES cid, l, disk, bad
vars == <<cid, l, disk, bad>>

Ev(c) == Cases[c].events
N(c) == Len(Ev(c))
Mods == 1..3
Reach(d, i) == \A j \in 1..i : d[j] # 0
Ideal(d) == {<<i, d[i]>> : i \in {i \in Mods : Reach(d, i)}}
AsSet(s) == {<<s[i][1], s[i][2]>> : i \in 1..Len(s)}

Init == /\ cid \in 1..NC /\ l = 1 /\ bad = FALSE
        /\ disk = [m \in Mods |-> Cases[cid].disk0[m]]

Step(c) ==
  LET e == Ev(c)[l] IN
  /\ l <= N(c)
  /\ l' = l + 1
  /\ CASE e.op = "create" -> disk[e.m] = 0 /\ disk' = [disk EXCEPT ![e.m] = e.ver] /\ UNCHANGED bad
       [] e.op = "rewrite" -> disk[e.m] # 0 /\ disk' = [disk EXCEPT ![e.m] = e.ver] /\ UNCHANGED bad
       [] e.op = "touch" -> disk[e.m] # 0 /\ UNCHANGED <<disk, bad>>
       [] e.op = "request" ->
            /\ (Cases[c].cyclic \/ AsSet(e.fm) = Ideal(disk))     \* reference validation (histories with an import cycle are outside
                                                                  \* the mechanism model: there the fresh project is the only reference)
            /\ LET ok == e.long = e.fresh /\ AsSet(e.lm) = AsSet(e.fm) IN
               /\ bad' = (bad \/ ~ok)
               /\ IF ok THEN TRUE ELSE PrintT(ToJson(<<"VFAIL", "C09", Cases[c].id, "long#fresh", l>>))
            /\ UNCHANGED disk
  /\ UNCHANGED cid

Next == Step(cid)
Spec == Init /\ [][Next]_vars
Done == l = N(cid) + 1
Count == /\ (Done => TLCSet(1, TLCGet(1) \cup {cid}))
         /\ ((Done /\ bad) => TLCSet(2, TLCGet(2) \cup {cid}))
ASSUME TLCSet(1, {}) /\ TLCSet(2, {})
Post == /\ PrintT(ToJson(<<"VDONE", "C09", NC, Cardinality(TLCGet(1)), Cardinality(TLCGet(2))>>))
        /\ Cardinality(TLCGet(1)) = NC
=============================================================================
