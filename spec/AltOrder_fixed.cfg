SPECIFICATION Spec
CONSTANTS
  Sites = {0, 1, 2, 3}
  Fixed = TRUE
INVARIANT Deterministic
INVARIANT NoDuplicates
INVARIANT Complete
CHECK_DEADLOCK FALSE
