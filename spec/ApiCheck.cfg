SPECIFICATION Spec
CONSTRAINT Count
POSTCONDITION Post
CHECK_DEADLOCK FALSE
