---------------------------- MODULE ProjectCache ----------------------------
(* M-spec of supp's project cache (project.py get_module / check_changes,
   module.py SourceModule, name.py ImportedName._ref, scope.py
   resolve_star_imports) over a chain of project modules

        main (the edited buffer)  --import-->  b  --lk[1]-->  c  --lk[2]-->  d

   Module m at version v defines the marker m_v<v> and a class m_tag with the
   attribute m_a<v>, so a reply reveals which version of which module it was
   computed from.  A request is the batch the driver sends through main:
   "names" (assist `b.`), "deep1" (attributes of c_tag reached through b),
   "deep2" (attributes of d_tag reached through b and c); each call runs in its
   own check_changes() context, exactly as the server does it.

   What is modelled (mechanism, including its faults):
     * _module_cache: module -> analysis object, revalidated by mtime only when
       that module itself is asked for (get_module); _context_cache (ctx) per call;
     * analysis objects are created by a load and live as long as something
       refers to them: an object holds (i) the star-imported names copied into its
       scope when the scope was extracted (`star`, a snapshot), (ii) the memoised
       resolution of its import (`ref`: ImportedName._ref, also memoised when the
       import failed);
     * Fixed = FALSE is the pinned tree: nothing else is invalidated, so an
       unchanged importer keeps serving its old snapshot / old ref;
       Fixed = TRUE is the repaired check_changes(): if any cached module changed
       on disk, or a module whose import failed earlier can now be found, the
       whole module cache is dropped.
   Transparent (C09): the markers in a reply equal the markers a fresh Project
   computes on the same disk state.                                            *)
EXTENDS Integers, Sequences, FiniteSets, TLC

CONSTANTS MaxVer,      \* versions per module 1..MaxVer (0 = the file does not exist)
          MaxOps,      \* bound on disk operations + requests in a history
          Fixed,       \* FALSE: pinned mechanism, TRUE: repaired mechanism
          LinkKinds    \* e.g. {"import", "star"}  ("from" behaves as "import" at this level)

Mods == 1..3           \* b, c, d
VARIABLES lk,          \* lk[i]: kind of the import statement in module i naming module i+1 (i = 1, 2)
          disk,        \* [Mods -> 0..MaxVer]
          dirty,       \* [Mods -> BOOLEAN]: mtime on disk differs from the mtime recorded by the cached object
          cache,       \* [Mods -> 0..] index into objs, 0 = not cached
          objs,        \* sequence of analysis objects [m, ver, star |-> [r, v], ref]
          failed,      \* modules whose lookup raised ImportError (repaired mechanism only)
          nops,
          last         \* the last event: [op, m, markers, fresh]
vars == <<lk, disk, dirty, cache, objs, failed, nops, last>>

NoStar == [r |-> FALSE, v |-> {}]

Init == /\ lk \in [1..2 -> LinkKinds]
        /\ disk \in [Mods -> 0..1] /\ disk[1] = 1
        /\ dirty = [m \in Mods |-> FALSE]
        /\ cache = [m \in Mods |-> 0]
        /\ objs = <<>>
        /\ failed = {}
        /\ nops = 0
        /\ last = [op |-> "init", m |-> 0, markers |-> {}, fresh |-> {}]

---------------------------------------------------------------------------
\* The algorithm, threading a state record s = [cache, dirty, objs, ctx, failed]

St(c, d, o, x, f) == [cache |-> c, dirty |-> d, objs |-> o, ctx |-> x, failed |-> f]

\* Project.get_module: <<s', object id or -1 (ImportError)>>
Get(i, s, dk) ==
  IF i \in s.ctx THEN <<s, s.cache[i]>>
  ELSE IF s.cache[i] # 0 /\ ~s.dirty[i] THEN <<[s EXCEPT !.ctx = @ \cup {i}], s.cache[i]>>
  ELSE LET s1 == [s EXCEPT !.cache[i] = 0] IN
       IF dk[i] = 0 THEN <<[s1 EXCEPT !.failed = @ \cup {i}], -1>>
       ELSE LET id == Len(s1.objs) + 1
                o == [m |-> i, ver |-> dk[i], star |-> NoStar, ref |-> 0] IN
            <<[s1 EXCEPT !.objs = Append(@, o), !.cache[i] = id, !.dirty[i] = FALSE], id>>

\* SourceModule.scope (cached_property): extract_scope + resolve_star_imports
RECURSIVE ForceScope(_, _, _, _)
ForceScope(id, s, dk, l) ==
  LET o == s.objs[id] IN
  IF o.star.r THEN s
  ELSE IF o.m = 3 \/ l[o.m] # "star" THEN [s EXCEPT !.objs[id].star = [r |-> TRUE, v |-> {}]]
  ELSE LET g == Get(o.m + 1, s, dk) IN
       IF g[2] = -1 THEN [g[1] EXCEPT !.objs[id].star = [r |-> TRUE, v |-> {}]]
       ELSE LET s2 == ForceScope(g[2], g[1], dk, l)
                o2 == s2.objs[g[2]] IN
            [s2 EXCEPT !.objs[id].star = [r |-> TRUE, v |-> {<<o2.m, o2.ver>>} \cup o2.star.v]]

\* follow the import of object id to the next module: <<s', id2 or -1>>
Via(id, s, dk, l) ==
  LET s1 == ForceScope(id, s, dk, l)
      o == s1.objs[id] IN
  IF o.m = 3 THEN <<s1, -1>>
  ELSE IF l[o.m] = "star" /\ ~\E p \in o.star.v : p[1] = o.m + 1 THEN <<s1, -1>>   \* the name was not copied
  ELSE IF o.ref # 0 THEN <<s1, o.ref>>
  ELSE LET g == Get(o.m + 1, s1, dk) IN
       <<[g[1] EXCEPT !.objs[id].ref = g[2]], g[2]>>

\* check_changes(): clear the per-call cache; repaired mechanism: drop everything when stale
Begin(s, dk, fixed) ==
  LET stale == (\E m \in Mods : s.cache[m] # 0 /\ s.dirty[m]) \/ (\E m \in s.failed : dk[m] # 0) IN
  IF fixed /\ stale
  THEN St([m \in Mods |-> 0], [m \in Mods |-> FALSE], s.objs, {}, {})
  ELSE [s EXCEPT !.ctx = {}]

\* the three calls of a request batch; each returns <<s', markers>>
CallNames(s, dk, l, fixed) ==
  LET s0 == Begin(s, dk, fixed)
      g == Get(1, s0, dk) IN
  IF g[2] = -1 THEN <<g[1], {}>>
  ELSE LET s1 == ForceScope(g[2], g[1], dk, l)
           o == s1.objs[g[2]] IN
       <<s1, {<<1, o.ver>>} \cup o.star.v>>

CallDeep1(s, dk, l, fixed) ==
  LET s0 == Begin(s, dk, fixed)
      g == Get(1, s0, dk) IN
  IF g[2] = -1 THEN <<g[1], {}>>
  ELSE LET v == Via(g[2], g[1], dk, l) IN
       IF v[2] = -1 THEN <<v[1], {}>>
       ELSE LET s2 == ForceScope(v[2], v[1], dk, l) IN
            <<s2, {<<2, s2.objs[v[2]].ver>>}>>

CallDeep2(s, dk, l, fixed) ==
  LET s0 == Begin(s, dk, fixed)
      g == Get(1, s0, dk) IN
  IF g[2] = -1 THEN <<g[1], {}>>
  ELSE LET v == Via(g[2], g[1], dk, l) IN
       IF v[2] = -1 THEN <<v[1], {}>>
       \* through two star imports the name d_tag must also have been copied into b itself
       ELSE IF l[1] = "star" /\ l[2] = "star" /\ ~\E p \in v[1].objs[g[2]].star.v : p[1] = 3 THEN <<v[1], {}>>
       ELSE LET w == Via(v[2], v[1], dk, l) IN
            IF w[2] = -1 THEN <<w[1], {}>>
            ELSE LET s3 == ForceScope(w[2], w[1], dk, l) IN
                 <<s3, {<<3, s3.objs[w[2]].ver>>}>>

Batch(s, dk, l, fixed) ==
  LET a == CallNames(s, dk, l, fixed)
      b == CallDeep1(a[1], dk, l, fixed)
      c == CallDeep2(b[1], dk, l, fixed) IN
  <<c[1], a[2] \cup b[2] \cup c[2]>>

Empty == St([m \in Mods |-> 0], [m \in Mods |-> FALSE], <<>>, {}, {})
FreshMarkers(dk, l) == Batch(Empty, dk, l, FALSE)[2]

---------------------------------------------------------------------------
Tick == nops < MaxOps /\ nops' = nops + 1

Create(m) == /\ Tick /\ disk[m] = 0
             /\ disk' = [disk EXCEPT ![m] = 1]
             /\ last' = [op |-> "create", m |-> m, markers |-> {}, fresh |-> {}]
             /\ UNCHANGED <<lk, dirty, cache, objs, failed>>
Rewrite(m) == /\ Tick /\ disk[m] > 0 /\ disk[m] < MaxVer
              /\ disk' = [disk EXCEPT ![m] = @ + 1]
              /\ dirty' = [dirty EXCEPT ![m] = (cache[m] # 0)]
              /\ last' = [op |-> "rewrite", m |-> m, markers |-> {}, fresh |-> {}]
              /\ UNCHANGED <<lk, cache, objs, failed>>
Touch(m) == /\ Tick /\ disk[m] > 0
            /\ dirty' = [dirty EXCEPT ![m] = (cache[m] # 0)]
            /\ last' = [op |-> "touch", m |-> m, markers |-> {}, fresh |-> {}]
            /\ UNCHANGED <<lk, disk, cache, objs, failed>>
Request == /\ Tick
           /\ LET r == Batch(St(cache, dirty, objs, {}, failed), disk, lk, Fixed) IN
              /\ cache' = r[1].cache /\ dirty' = r[1].dirty /\ objs' = r[1].objs /\ failed' = r[1].failed
              /\ last' = [op |-> "request", m |-> 0, markers |-> r[2], fresh |-> FreshMarkers(disk, lk)]
           /\ UNCHANGED <<lk, disk>>

Next == Request \/ \E m \in Mods : Create(m) \/ Rewrite(m) \/ Touch(m)
Spec == Init /\ [][Next]_vars

---------------------------------------------------------------------------
\* C09 on the mechanism
Transparent == last.op = "request" => last.markers = last.fresh
\* what a fresh project must see, stated without the algorithm (validates FreshMarkers itself):
\* module i+1 is visible iff modules 1..i+1 all exist
Reach(i) == \A j \in 1..i : disk[j] # 0
Ideal == {<<i, disk[i]>> : i \in {i \in Mods : Reach(i)}}
FreshIsIdeal == last.op = "request" => last.fresh = Ideal
\* the repaired mechanism never serves a cached object whose file changed
CleanAfterRequest == (Fixed /\ last.op = "request") => \A m \in Mods : cache[m] # 0 => (~dirty[m] /\ objs[cache[m]].ver = disk[m])
=============================================================================
