------------------------------ MODULE AltOrder ------------------------------
(* M-spec for C17: how supp orders the alternative definitions of a multiply-bound
   name (name.py MultiName.__init__, scope.py parent_names).  A join collects one
   entry per predecessor region; MultiName flattens nested MultiNames and removes
   duplicates.
     Fixed = FALSE  the pinned tree: `list(set(allnames))` - Name objects hash by
                    address, so the result is SOME enumeration of the set (any
                    permutation is possible from one process to the next);
     Fixed = TRUE   the repaired code: duplicates removed, then sorted by the
                    position of the binding ("undefined" = position 0 first).
   Deterministic: the list is a function of the set of alternatives alone, and it
   is in source order.  TLC shows it violated for the pinned mechanism (the
   design-level statement of the defect) and valid for the repaired one, for every
   shape of join tree over up to four binding sites.                          *)
EXTENDS Naturals, Sequences, FiniteSets, TLC
CONSTANTS Sites, Fixed
VARIABLES preds,    \* what the predecessors of the join deliver: a sequence of sets (nested MultiNames already flattened)
          alts      \* the resulting alt_names
vars == <<preds, alts>>

Enumerations(S) == {s \in [1..Cardinality(S) -> S] : \A i, j \in DOMAIN s : i # j => s[i] # s[j]}
IsSorted(s) == \A i \in 1..(Len(s) - 1) : s[i] < s[i + 1]
Sorted(S) == CHOOSE s \in Enumerations(S) : IsSorted(s)
Union(ps) == UNION {ps[i] : i \in DOMAIN ps}

Init == /\ preds \in UNION {[1..n -> (SUBSET Sites) \ {{}}] : n \in 2..3}
        /\ alts = <<>>
Build == /\ alts = <<>>
         /\ alts' \in (IF Fixed THEN {Sorted(Union(preds))} ELSE Enumerations(Union(preds)))
         /\ UNCHANGED preds
Next == Build
Spec == Init /\ [][Next]_vars
Deterministic == alts # <<>> => (alts = Sorted(Union(preds)))
NoDuplicates == \A i, j \in DOMAIN alts : i # j => alts[i] # alts[j]
Complete == alts # <<>> => {alts[i] : i \in DOMAIN alts} = Union(preds)
=============================================================================
