SPECIFICATION Spec
VIEW View
CONSTRAINT Accumulate
POSTCONDITION Post
CHECK_DEADLOCK FALSE
