---------------------------- MODULE MsgPackEnc ----------------------------
(* The reference ENCODER choosing arbitrary legal formats: value shapes (random
   nested values produced by the driver) are read from JSON and encoded with a
   randomly chosen legal form at every node; each encoding is decoded again by the
   reference decoder (Decode o Enc = id) and printed for the driver, which feeds
   it to the real loads.                                                       *)
EXTENDS MsgPack, Json, IOUtils
Shapes == JsonDeserialize(IOEnv.VERIF_CASES)
RECURSIVE Enc(_), EncSeq(_, _), EncPairs(_, _)
Enc(sh) ==
  CASE sh.t = "nil" -> <<Byte(192)>>
    [] sh.t = "bool" -> <<Byte(194 + sh.b)>>
    [] sh.t = "int" -> RandomElement(IntEncodings(sh.neg, sh.mag))
    [] sh.t = "float" -> <<Byte(IF sh.w = 8 THEN 203 ELSE 202)>> \o Bs(sh.bits)
    [] sh.t = "str" -> RandomElement(StrEncodingsP(sh.n, sh.segs))
    [] sh.t = "bin" -> RandomElement(BinEncodingsP(sh.n, sh.segs))
    [] sh.t = "ext" -> RandomElement(ExtEncodingsP(sh.ty, sh.n, sh.segs))
    [] sh.t = "arr" -> RandomElement(ArrHeaders(Len(sh.items))) \o EncSeq(sh.items, 1)
    [] sh.t = "map" -> RandomElement(MapHeaders(Len(sh.items))) \o EncPairs(sh.items, 1)
EncSeq(items, i) == IF i > Len(items) THEN <<>> ELSE Enc(items[i]) \o EncSeq(items, i + 1)
EncPairs(items, i) == IF i > Len(items) THEN <<>> ELSE Enc(items[i][1]) \o Enc(items[i][2]) \o EncPairs(items, i + 1)

VARIABLES k, enc
Init == k \in 1..Len(Shapes) /\ enc = Enc(Shapes[k].shape)
Next == UNCHANGED <<k, enc>>
Spec == Init /\ [][Next]_<<k, enc>>
RoundTrip == Decode(enc).ok /\ Decode(enc).v = Shapes[k].shape
Emit == PrintT(ToJson([id |-> Shapes[k].id, enc |-> enc]))
=============================================================================
