SPECIFICATION Spec
CONSTANTS
  Threads = {"t1", "t2"}
  OpSeqs <- Seqs3
  MaxFail = 0
  JoinRace = FALSE
  CallLock = TRUE
  Symmetric = TRUE
INVARIANT OneLaunchPerEpoch
INVARIANT OneLaunchEver
INVARIANT NoHandshakeException
INVARIANT NoExceptionWithoutClose
INVARIANT PrepareNeverRaises
INVARIANT Answered
INVARIANT OwnReply
INVARIANT LockSane
INVARIANT StarterOwnsPt
INVARIANT NoDeadlock
CHECK_DEADLOCK FALSE
