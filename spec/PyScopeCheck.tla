---------------------------- MODULE PyScopeCheck ----------------------------
(* Judge for C01 on multi-scope programs.  TLC explores ALL executions of the reference semantics PyScope
   (every branch outcome, 0..2 trips per loop, calls within the budget) and accumulates per read r the set of
   values the name can have there.  Each program carries what the REAL supp answered for every read:
        rd[r] = [id, vis (the name is in the table Flow.names_at gives for that position: informational), e02, e42
                 (lint flags the read), assist (name completion at the end of the identifier offers it)]
   Clause Visible (C01): a read that obtains a value in some execution is visible to supp: no E02 / E42, offered.
   (vis is not required: module variables created through a `global` declaration are kept beside the region tables.)  *)
EXTENDS PyScope, TLCExt

Init == SInit
Next == SNext
Spec == Init /\ [][Next]_svars
View == <<pid, k, heap, ncalls, crash>>

ASSUME \A p \in 1..NP : TLCSet(p, {})
Accumulate ==
  IF k # <<>> /\ Top.n # 0 /\ N(Top.n).k \in {"read", "call"}
  THEN TLCSet(pid, TLCGet(pid) \cup {<<N(Top.n).s, Get(Top.fr, N(Top.n).n).s>>})
  ELSE TRUE

SeenOf(p, r) == {q[2] : q \in {q \in TLCGet(p) : q[1] = r}}
Fail(p, clause, r, detail) == PrintT(ToJson(<<"VFAIL", "C01", Programs[p].id, clause, <<r, detail>> >>))

JudgeRead(p, i) ==
  LET o == Programs[p].rd[i]
      seen == SeenOf(p, o.id)
      bound == \E v \in seen : v # UNBOUND
      ok == bound => (~o.e02 /\ ~o.e42 /\ o.assist) IN
  IF ok THEN TRUE ELSE Fail(p, "Visible", o.id, <<o.vis, o.e02, o.e42, o.assist, seen>>)

Post ==
  /\ \A p \in 1..NP : \A i \in 1..Len(Programs[p].rd) : JudgeRead(p, i)
  /\ PrintT(ToJson(<<"VDONE", "PYSCOPE", NP, NP, 0>>))
  /\ PrintT(ToJson(<<"SEEN", [p \in 1..NP |-> [id |-> Programs[p].id, s |-> TLCGet(p)]]>>))
=============================================================================
