---------------------------- MODULE PyScopeCheck ----------------------------
(* Judge for C01 on multi-scope programs.  TLC explores ALL executions of the reference semantics PyScope
   (every branch outcome, 0..2 trips per loop, calls within the budget) and accumulates per read r the set of
   values the name can have there.  Each program carries what the REAL supp answered for every read:
        rd[r] = [id, vis (the name is in the table Flow.names_at gives for that position: informational), e02, e42
                 (lint flags the read), assist (name completion at the end of the identifier offers it)]
                 alts (binding sites supp associates with the read; -1 builtin, -2 not a site of the program)]
        unused = binding sites reported W01 / W02
   Clause Visible (C01): a read that obtains a value in some execution is visible to supp: no E02 / E42, offered.
   Clauses DefIncluded, NoFalseUnused (C02, whose domain is reads whose binding is in the same function / lambda / class /
   module body): every site of the read's own body that some execution reads there is among supp's alternatives, and is
   not reported unused.  (Sites bound under a global / nonlocal declaration belong to another scope's variable.)
   (vis is not required: module variables created through a `global` declaration are kept beside the region tables.)  *)
EXTENDS PyScope, TLCExt

Init == SInit
Next == SNext
Spec == Init /\ [][Next]_svars
View == <<pid, k, heap, ncalls, crash>>

ASSUME \A p \in 1..NP : TLCSet(p, {})
Accumulate ==
  IF k # <<>> /\ Top.n # 0 /\ N(Top.n).k \in {"read", "call"}
  THEN TLCSet(pid, TLCGet(pid) \cup {<<N(Top.n).s, Get(Top.fr, N(Top.n).n).s>>})
  ELSE TRUE

SeenOf(p, r) == {q[2] : q \in {q \in TLCGet(p) : q[1] = r}}
Fail(p, prop, clause, r, detail) == PrintT(ToJson(<<"VFAIL", prop, Programs[p].id, clause, <<r, detail>> >>))

\* ---- C02 inside nested bodies: a read that obtains the value bound at a site of ITS OWN body lists that site -----------
PN(p, i) == Programs[p].nodes[i]
PS(p, i) == Programs[p].scopes[i]
BindNodes(p, v) == {i \in 1..Len(Programs[p].nodes) : PN(p, i).k \in BindKinds \cup {"wbind", "wdef"} /\ PN(p, i).s = v}
ParamScopes(p, v) == {sc \in 1..Len(Programs[p].scopes) : \E j \in 1..Len(PS(p, sc).params) : PS(p, sc).params[j].s = v}
RECURSIVE PNonComp(_, _)
PNonComp(p, sc) == IF PS(p, sc).kind = "comp" THEN PNonComp(p, PS(p, sc).parent) ELSE sc
SiteScope(p, v) == IF BindNodes(p, v) # {}
                   THEN LET i == CHOOSE j \in BindNodes(p, v) : TRUE IN IF PN(p, i).k \in {"wbind", "wdef"} THEN PNonComp(p, PN(p, i).o) ELSE PN(p, i).o
                   ELSE IF ParamScopes(p, v) # {} THEN CHOOSE sc \in ParamScopes(p, v) : TRUE ELSE 0
ReadNodes(p, r) == {i \in 1..Len(Programs[p].nodes) : PN(p, i).k \in {"read", "call"} /\ PN(p, i).s = r}
ReadScope(p, r) == PN(p, CHOOSE i \in ReadNodes(p, r) : TRUE).o
ReadName(p, r) == PN(p, CHOOSE i \in ReadNodes(p, r) : TRUE).n
Redirected(p, sc, n) == n \in ToSet(PS(p, sc).gl) \/ n \in ToSet(PS(p, sc).nl)     \* binds another scope's variable
SameBody(p, r, v) == v > 0 /\ SiteScope(p, v) = ReadScope(p, r) /\ ~Redirected(p, ReadScope(p, r), ReadName(p, r))

JudgeRead(p, i) ==
  LET o == Programs[p].rd[i]
      seen == SeenOf(p, o.id)
      bound == \E v \in seen : v # UNBOUND
      ok == bound => (~o.e02 /\ ~o.e42 /\ o.assist)
      own == {v \in seen : SameBody(p, o.id, v)}
      inc == own \subseteq ToSet(o.alts) IN
  /\ (IF ok THEN TRUE ELSE Fail(p, "C01", "Visible", o.id, <<o.vis, o.e02, o.e42, o.assist, seen>>))
  /\ (IF inc THEN TRUE ELSE Fail(p, "C02", "DefIncluded", o.id, <<own, o.alts>>))

\* a binding that a read of its own body obtains in some execution is not reported unused
JudgeUnused(p) ==
  LET used == UNION {{v \in SeenOf(p, Programs[p].rd[i].id) : SameBody(p, Programs[p].rd[i].id, v)} : i \in 1..Len(Programs[p].rd)}
      bad == ToSet(Programs[p].unused) \cap used IN
  IF bad = {} THEN TRUE ELSE Fail(p, "C02", "NoFalseUnused", 0, bad)

Post ==
  /\ \A p \in 1..NP : (\A i \in 1..Len(Programs[p].rd) : JudgeRead(p, i)) /\ JudgeUnused(p)
  /\ PrintT(ToJson(<<"VDONE", "PYSCOPE", NP, NP, 0>>))
  /\ PrintT(ToJson(<<"SEEN", [p \in 1..NP |-> [id |-> Programs[p].id, s |-> TLCGet(p)]]>>))
=============================================================================
