----------------------------- MODULE ImportCheck -----------------------------
(* Judge for C07.  case = one materialised layout:
   [id, lookups |-> << [name, spec |-> [found, root, kind] (Find of ImportSys.tla; root 0 for names outside the layout),
                        hasspec, ref |-> [found, root, kind, file] (the real importlib), impl |-> [found, root, kind, file, exc] (the real supp)] >>,
        rels    |-> << [ref |-> text or "ImportError", impl |-> text or "ImportError" or other exception class] >>,
        kids    |-> << [missing |-> n, extra |-> n] >>]
   RefOK: Find = importlib.   Clauses: SameFile, ImportErrorIff, ResolveName, Children.   *)
EXTENDS Naturals, Sequences, FiniteSets, TLC, Json, IOUtils
Cases == JsonDeserialize(IOEnv.VERIF_CASES)
NC == Len(Cases)
VARIABLES cid, done
Fail(c, clause, d) == PrintT(ToJson(<<"VFAIL", "C07", Cases[c].id, clause, d>>))
Init == cid \in 1..NC /\ done = FALSE
Judge ==
  /\ ~done /\ done' = TRUE /\ UNCHANGED cid
  /\ LET r == Cases[cid]
         L == r.lookups
         ref == \A i \in 1..Len(L) : ~L[i].hasspec \/ (L[i].spec.found = L[i].ref.found /\ (L[i].spec.found => (L[i].spec.root = L[i].ref.root /\ L[i].spec.kind = L[i].ref.kind)))
         badfile == {i \in 1..Len(L) : L[i].ref.found /\ L[i].impl.found /\ L[i].ref.file # L[i].impl.file}
         badiff == {i \in 1..Len(L) : L[i].ref.found # L[i].impl.found \/ (~L[i].impl.found /\ L[i].impl.exc # "ImportError")}
         badrel == {i \in 1..Len(r.rels) : r.rels[i].ref # r.rels[i].impl}
         badkids == {i \in 1..Len(r.kids) : r.kids[i].missing # 0 \/ r.kids[i].extra # 0} IN
     /\ (IF ref THEN TRUE ELSE Fail(cid, "REF", 0))
     /\ (IF badfile = {} THEN TRUE ELSE Fail(cid, "SameFile", [i \in badfile |-> L[i].name]))
     /\ (IF badiff = {} THEN TRUE ELSE Fail(cid, "ImportErrorIff", [i \in badiff |-> <<L[i].name, L[i].ref.found, L[i].impl.found, L[i].impl.exc>>]))
     /\ (IF badrel = {} THEN TRUE ELSE Fail(cid, "ResolveName", [i \in badrel |-> r.rels[i]]))
     /\ (IF badkids = {} THEN TRUE ELSE Fail(cid, "Children", [i \in badkids |-> r.kids[i]]))
     /\ TLCSet(1, TLCGet(1) \cup {cid})
     /\ (IF ref /\ badfile = {} /\ badiff = {} /\ badrel = {} /\ badkids = {} THEN TRUE ELSE TLCSet(2, TLCGet(2) \cup {cid}))
Spec == Init /\ [][Judge]_<<cid, done>>
ASSUME TLCSet(1, {}) /\ TLCSet(2, {})
Post == /\ PrintT(ToJson(<<"VDONE", "C07", NC, Cardinality(TLCGet(1)), Cardinality(TLCGet(2))>>))
        /\ Cardinality(TLCGet(1)) = NC
=============================================================================
