------------------------------- MODULE ApiCheck -------------------------------
(* Judge part of ApiContract.tla. *)
EXTENDS Naturals, Sequences, FiniteSets, TLC, Json, IOUtils
Cases == JsonDeserialize(IOEnv.VERIF_CASES)
NC == Len(Cases)
VARIABLES cid, l, bad
vars == <<cid, l, bad>>
Fail(c, clause, d) == PrintT(ToJson(<<"VFAIL", "C08", Cases[c].id, clause, d>>))
Init == cid \in 1..NC /\ l = 1 /\ bad = FALSE
Call(c) ==
  LET r == Cases[c]
      k == r.calls[l]
      term == k.outcome # "timeout"
      lintok == k.op # "lint" \/
                (/\ k.outcome = "ok" /\ k.wellformed
                 /\ (r.parses => k.ne01 = 0)
                 /\ (~r.parses => (k.ne01 = 1 /\ k.e01same)))
      cursorok == k.op = "lint" \/
                  (k.outcome = "ok" /\ k.wellformed) \/ (k.outcome = "SyntaxError" /\ ~k.marked) IN
  /\ l <= Len(r.calls)
  /\ l' = l + 1
  /\ bad' = (bad \/ ~term \/ ~lintok \/ ~cursorok)
  /\ (IF term THEN TRUE ELSE Fail(c, "Terminates", <<l, k.op>>))
  /\ (IF lintok \/ ~term THEN TRUE ELSE Fail(c, "LintTotal", <<l, k.outcome, k.ne01, k.e01same, r.parses>>))
  /\ (IF cursorok \/ ~term THEN TRUE ELSE Fail(c, "CursorTotal", <<l, k.op, k.outcome, k.marked, k.wellformed>>))
  /\ UNCHANGED cid
Spec == Init /\ [][Call(cid)]_vars
Done == l = Len(Cases[cid].calls) + 1
Count == /\ (Done => TLCSet(1, TLCGet(1) \cup {cid}))
         /\ ((Done /\ bad) => TLCSet(2, TLCGet(2) \cup {cid}))
ASSUME TLCSet(1, {}) /\ TLCSet(2, {})
Post == /\ PrintT(ToJson(<<"VDONE", "C08", NC, Cardinality(TLCGet(1)), Cardinality(TLCGet(2))>>))
        /\ Cardinality(TLCGet(1)) = NC
=============================================================================
