SPECIFICATION Spec
INVARIANT RoundTrip
INVARIANT Emit
CHECK_DEADLOCK FALSE
