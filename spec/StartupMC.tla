---------------------------- MODULE StartupMC ----------------------------
(* Model-checking instances of Startup: the op-sequence alphabets. *)
EXTENDS Startup
OpsAll == {"prepare", "call", "close"}
\* every non-empty sequence without repetition (every order of every subset)
Seqs3 == {s \in UNION {[1..n -> OpsAll] : n \in 1..3} : \A i, j \in DOMAIN s : i # j => s[i] # s[j]}
Seqs2 == {s \in Seqs3 : Len(s) <= 2}
Seqs1 == {s \in Seqs3 : Len(s) = 1}
\* sequences with repetition, length <= 2 (call after call, close twice, ...)
Rep2 == UNION {[1..n -> OpsAll] : n \in 1..2}
NoClose2 == {s \in Rep2 : \A i \in DOMAIN s : s[i] # "close"}
NoClose3 == {s \in UNION {[1..n -> {"prepare", "call"}] : n \in 1..3} : TRUE}
===========================================================================
