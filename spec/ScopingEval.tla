---------------------------- MODULE ScopingEval ----------------------------
(* Scoping.tla applied to given chains (deeper than the exhaustive enumeration reaches): the driver samples candidate chains
   of depth 4..6, this module keeps the legal ones and prints their owners (same record as Scoping!GenEmit).      *)
EXTENDS Scoping, IOUtils
Cands == JsonDeserialize(IOEnv.VERIF_CASES)
EvalInit == ch \in {Cands[i] : i \in {j \in 1..Len(Cands) : Legal(Cands[j])}}
EvalSpec == EvalInit /\ [][UNCHANGED ch]_ch
=============================================================================
