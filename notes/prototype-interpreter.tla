---- MODULE Mini ----
EXTENDS Naturals, Sequences, FiniteSets, TLC, Json, IOUtils, TLCExt

Programs == JsonDeserialize(IOEnv.MINI_PROGRAMS)
NP == Len(Programs)
UNB == 0   \* unbound marker; sites are >= 1

VARIABLES pid, ctl, env, trips

vars == <<pid, ctl, env, trips>>

Node(p, i) == Programs[p].nodes[i]

Init == /\ pid \in 1..NP
        /\ ctl = << <<1, 0>> >>       \* stack of <<node, phase>>; node 1 is root
        /\ env = [n \in {} |-> 0]
        /\ trips = <<>>

Top == ctl[Len(ctl)]
Pop == SubSeq(ctl, 1, Len(ctl)-1)
Push(c, x) == Append(c, x)
Get(n) == IF n \in DOMAIN env THEN env[n] ELSE UNB

Step ==
  /\ ctl # <<>>
  /\ LET nd == Node(pid, Top[1]) ph == Top[2] IN
     CASE nd.k = "seq" ->
            /\ IF ph < Len(nd.c)
               THEN ctl' = Push(Push(Pop, <<Top[1], ph+1>>), <<nd.c[ph+1], 0>>)
               ELSE ctl' = Pop
            /\ UNCHANGED <<env, trips>>
       [] nd.k = "bind" ->
            /\ env' = [x \in DOMAIN env \cup {nd.n} |-> IF x = nd.n THEN nd.s ELSE env[x]]
            /\ ctl' = Pop /\ UNCHANGED trips
       [] nd.k = "read" ->
            /\ ctl' = Pop /\ UNCHANGED <<env, trips>>
       [] nd.k = "if" ->
            /\ \E b \in {1, 2}: ctl' = Push(Pop, <<nd.c[b], 0>>)
            /\ UNCHANGED <<env, trips>>
       [] nd.k = "while" ->
            \* phase = number of trips done
            /\ \/ /\ ph < 2
                  /\ ctl' = Push(Push(Pop, <<Top[1], ph+1>>), <<nd.c[1], 0>>)
               \/ ctl' = Pop
            /\ UNCHANGED <<env, trips>>
       [] OTHER -> FALSE
  /\ UNCHANGED pid

Done == ctl = <<>> /\ UNCHANGED vars
Next == Step \/ Done
Spec == Init /\ [][Next]_vars

AtRead == ctl # <<>> /\ Node(pid, Top[1]).k = "read"

\* accumulate seen (pid, site, def) in TLC register 1
Rec == IF AtRead
       THEN LET nd == Node(pid, Top[1]) IN
            TLCSet(1, TLCGet(1) \cup {<<pid, nd.s, Get(nd.n)>>})
       ELSE TRUE
Constraint == Rec

\* C01-like invariant: a read that succeeds is visible per supp

Post == /\ PrintT(<<"SEEN", Cardinality(TLCGet(1))>>)
        /\ TRUE
ASSUME TLCSet(1, {})
====
