import sys, random, collections, ast
SUPP = sys.argv[1]
sys.path.insert(0, SUPP); sys.path.insert(0, '/tmp/proto')
import logging; logging.disable(logging.CRITICAL)
import pb_conf as pc
from supp.util import Source, np, get_name_usages
from supp.nast import extract_scope
from supp.project import Project
from supp.name import MultiName, UndefinedName
P = Project(['/tmp/recon/empty'])

def features(nodes):
    N = lambda i: nodes[i-1]
    f = set()
    parent = {}
    for i, n in enumerate(nodes, 1):
        for c in n['c']:
            if c: parent[c] = (i, 'c')
        for h in n['hs']:
            parent[h] = (i, 'h')
    for i, n in enumerate(nodes, 1):
        k = n['k']
        if k in ('break', 'continue'): f.add('brkcnt')
        if k in ('mayraise', 'raise'):
            # must be first/last direct statement of a try body whose handlers catch every kind it can raise
            p = parent.get(i)
            ok = False
            if p:
                seq = N(p[0])
                pp = parent.get(p[0])
                if seq['k'] == 'seq' and pp and N(pp[0])['k'] == 'try' and N(pp[0])['c'][0] == p[0] \
                        and seq['c'].index(i) in (0, len(seq['c']) - 1):
                    t = N(pp[0])
                    kinds = n['kinds'] if k == 'mayraise' else [n['s']]
                    caught = lambda kd: any((not N(h)['kinds']) or kd in N(h)['kinds'] for h in t['hs'])
                    ok = all(caught(kd) for kd in kinds)
            if not ok: f.add('raise-mid-try')
        if k == 'seq':
            for c in n['c'][:-1]:
                if N(c)['k'] in ('return', 'raise', 'break', 'continue'): f.add('deadcode')
        if k == 'return':
            f.add('return')
        if k == 'try' and n['hs']:
            body = N(n['c'][0])['c']
            def mr(i):
                nd = N(i); return nd['k'] == 'mayraise' and set(nd['kinds']) == {1, 2}
            if not (len(body) >= 2 and mr(body[0]) and mr(body[-1])): f.add('try-noncanon')
            # every handler must be live: not shadowed by an earlier handler
            seen = set()
            for h in n['hs']:
                ks = set(N(h)['kinds']) or {1, 2}
                if ks <= seen: f.add('try-noncanon')
                seen |= ks
        if k == 'raise':
            f.add('try-noncanon')
    return f

def analyse(src, nodes):
    scope = extract_scope(Source(src), P)
    sites = {}   # (line) -> site for binds; reads by _o.p(N)
    res = {}
    lines = src.split('\n')
    import re
    # binding site by line: "name = _o.b(S)" or for-target "_o.it([...], S)" or handler "as name" -> handler site
    bind_line = {}
    for ln, text in enumerate(lines, 1):
        m = re.search(r'(\w+) = _o\.b\((\d+)\)', text)
        if m: bind_line[(ln, m.group(1))] = int(m.group(2))
        m = re.search(r'for (\w+) in _o\.it\(.*, (\d+)\):', text)
        if m: bind_line[(ln, m.group(1))] = int(m.group(2))
    hs = {}
    for name in get_name_usages(scope.source.tree):
        if name.id.startswith('_'): continue
        # find site: the enclosing call _o.r(_o.p(S), name)
        seg = lines[name.lineno-1][:name.col_offset]
        m = re.findall(r'_o\.p\((\d+)\), $', seg)
        if not m: continue
        site = int(m[0])
        if not hasattr(name, 'flow'):
            res[site] = ('E42', set(), False); continue
        r = name.flow.names_at(np(name)).get(name.id)
        if r is None:
            res[site] = ('E02', set(), False); continue
        alts = r.alt_names if isinstance(r, MultiName) else [r]
        aset = set(); undef = False
        for a in alts:
            if isinstance(a, UndefinedName): undef = True; continue
            ln = a.declared_at[0]
            s = bind_line.get((ln, a.name))
            aset.add(s if s is not None else 'exc')
        res[site] = ('ok', aset, undef)
    return res

