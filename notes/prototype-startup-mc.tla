---- MODULE MCStartup ----
EXTENDS Startup
OpsDef == [t \in Threads |-> CASE t = "A" -> <<"prepare">> [] t = "B" -> <<"call">> [] OTHER -> <<"prepare","call">>]
OpsDef2 == [t \in Threads |-> CASE t = "A" -> <<"prepare","call">> [] t = "B" -> <<"call","close","call">> [] OTHER -> <<"close","prepare">>]
====
