---- MODULE Startup ----
(* Design-phase prototype: supp/remote.py Environment start-up at line granularity.
   Threads run a fixed op sequence; starter thread is spawned by prepare. *)
EXTENDS Naturals, Sequences, FiniteSets, TLC
CONSTANTS Threads, Ops      \* Ops: [Threads -> Seq({"prepare","call","close"})]
VARIABLES pc, opi, lock, pt, ptAlive, conn, launches, epoch, exc, answered, spc, tmp

vars == <<pc, opi, lock, pt, ptAlive, conn, launches, epoch, exc, answered, spc, tmp>>
Init == /\ pc = [t \in Threads |-> "next"] /\ opi = [t \in Threads |-> 0]
        /\ lock = "" /\ pt = FALSE /\ ptAlive = FALSE /\ conn = FALSE
        /\ launches = 0 /\ epoch = 0 /\ exc = {} /\ answered = 0 /\ spc = "idle"
        /\ tmp = [t \in Threads |-> FALSE]

Goto(t, l) == pc' = [pc EXCEPT ![t] = l]
NextOp(t) == /\ pc[t] = "next" /\ opi[t] < Len(Ops[t])
             /\ opi' = [opi EXCEPT ![t] = @ + 1]
             /\ Goto(t, CASE Ops[t][opi[t] + 1] = "prepare" -> "p1"
                          [] Ops[t][opi[t] + 1] = "call" -> "c1"
                          [] OTHER -> "k1")
             /\ UNCHANGED <<lock, pt, ptAlive, conn, launches, epoch, exc, answered, spc, tmp>>
U == UNCHANGED <<opi, pt, ptAlive, conn, launches, epoch, exc, answered, spc, tmp>>
\* prepare
P1(t) == pc[t] = "p1" /\ lock = "" /\ lock' = t /\ Goto(t, "p2") /\ U
P2(t) == pc[t] = "p2" /\ (IF pt THEN lock' = "" /\ Goto(t, "next") ELSE lock' = lock /\ Goto(t, "p3")) /\ U
P3(t) == pc[t] = "p3" /\ (IF conn THEN lock' = "" /\ Goto(t, "next") ELSE lock' = lock /\ Goto(t, "p4")) /\ U
P4(t) == /\ pc[t] = "p4" /\ pt' = TRUE /\ ptAlive' = TRUE /\ spc' = "s1" /\ lock' = "" /\ Goto(t, "next")
         /\ UNCHANGED <<opi, conn, launches, epoch, exc, answered, tmp>>
\* starter thread
S1 == spc = "s1" /\ launches' = launches + 1 /\ spc' = "s2" /\ UNCHANGED <<pc, opi, lock, pt, ptAlive, conn, epoch, exc, answered, tmp>>
S2 == spc = "s2" /\ conn' = TRUE /\ spc' = "s3" /\ UNCHANGED <<pc, opi, lock, pt, ptAlive, launches, epoch, exc, answered, tmp>>
S3 == spc = "s3" /\ pt' = FALSE /\ spc' = "s4" /\ UNCHANGED <<pc, opi, lock, ptAlive, conn, launches, epoch, exc, answered, tmp>>
S4 == spc = "s4" /\ ptAlive' = FALSE /\ spc' = "idle" /\ UNCHANGED <<pc, opi, lock, pt, conn, launches, epoch, exc, answered, tmp>>
\* _call
C1(t) == pc[t] = "c1" /\ Goto(t, IF conn THEN "c3" ELSE "r1") /\ UNCHANGED <<opi, lock, pt, ptAlive, conn, launches, epoch, exc, answered, spc, tmp>>
R1(t) == pc[t] = "r1" /\ lock = "" /\ lock' = t /\ Goto(t, "r2") /\ U
R2(t) == pc[t] = "r2" /\ Goto(t, IF pt THEN "r3" ELSE "r4") /\ UNCHANGED <<opi, lock, pt, ptAlive, conn, launches, epoch, exc, answered, spc, tmp>>
R3(t) == /\ pc[t] = "r3"          \* second read of prepare_thread, then .join
         /\ IF pt THEN Goto(t, "r3w") /\ exc' = exc /\ lock' = lock
                 ELSE Goto(t, "next") /\ exc' = exc \cup {<<t, "AttributeError-join">>} /\ lock' = ""
         /\ UNCHANGED <<opi, pt, ptAlive, conn, launches, epoch, answered, spc, tmp>>
R3w(t) == pc[t] = "r3w" /\ ~ptAlive /\ Goto(t, "r4") /\ UNCHANGED <<opi, lock, pt, ptAlive, conn, launches, epoch, exc, answered, spc, tmp>>
R4(t) == pc[t] = "r4" /\ Goto(t, IF conn THEN "r6" ELSE "r5a") /\ UNCHANGED <<opi, lock, pt, ptAlive, conn, launches, epoch, exc, answered, spc, tmp>>
R5a(t) == pc[t] = "r5a" /\ launches' = launches + 1 /\ Goto(t, "r5b") /\ UNCHANGED <<opi, lock, pt, ptAlive, conn, epoch, exc, answered, spc, tmp>>
R5b(t) == pc[t] = "r5b" /\ conn' = TRUE /\ Goto(t, "r6") /\ UNCHANGED <<opi, lock, pt, ptAlive, launches, epoch, exc, answered, spc, tmp>>
R6(t) == pc[t] = "r6" /\ lock' = "" /\ Goto(t, "c3") /\ U
C3(t) == /\ pc[t] = "c3"          \* self.conn.send_bytes
         /\ IF conn THEN Goto(t, "c4") /\ exc' = exc
                    ELSE Goto(t, "next") /\ exc' = exc \cup {<<t, "AttributeError-conn">>}
         /\ UNCHANGED <<opi, lock, pt, ptAlive, conn, launches, epoch, answered, spc, tmp>>
C4(t) == pc[t] = "c4" /\ answered' = answered + 1 /\ Goto(t, "next") /\ UNCHANGED <<opi, lock, pt, ptAlive, conn, launches, epoch, exc, spc, tmp>>
\* close (with the stray dumps argument repaired)
K1(t) == pc[t] = "k1" /\ Goto(t, IF conn THEN "k2" ELSE "next") /\ UNCHANGED <<opi, lock, pt, ptAlive, conn, launches, epoch, exc, answered, spc, tmp>>
K2(t) == pc[t] = "k2" /\ Goto(t, "k4") /\ UNCHANGED <<opi, lock, pt, ptAlive, conn, launches, epoch, exc, answered, spc, tmp>>
K4(t) == /\ pc[t] = "k4"
         /\ IF conn THEN conn' = FALSE /\ epoch' = epoch + 1 /\ launches' = 0 /\ exc' = exc
                    ELSE conn' = conn /\ epoch' = epoch /\ launches' = launches /\ exc' = exc \cup {<<t, "AttributeError-del">>}
         /\ Goto(t, "next") /\ UNCHANGED <<opi, lock, pt, ptAlive, answered, spc, tmp>>

Next == \/ \E t \in Threads: NextOp(t) \/ P1(t) \/ P2(t) \/ P3(t) \/ P4(t) \/ C1(t) \/ R1(t) \/ R2(t) \/ R3(t) \/ R3w(t)
                              \/ R4(t) \/ R5a(t) \/ R5b(t) \/ R6(t) \/ C3(t) \/ C4(t) \/ K1(t) \/ K2(t) \/ K4(t)
        \/ S1 \/ S2 \/ S3 \/ S4
Spec == Init /\ [][Next]_vars
OneLaunch == launches <= 1
NoHandshakeExc == \A e \in exc: e[2] # "AttributeError-join"
NoExc == exc = {}
====
