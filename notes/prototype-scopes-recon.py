import sys, random, collections, re, ast
SUPP = sys.argv[1]
sys.path.insert(0, SUPP)
import logging; logging.disable(logging.CRITICAL)
from supp.util import Source, np, get_name_usages
from supp.nast import extract_scope
from supp.linter import lint
from supp.project import Project
P = Project(['/tmp/recon/empty'])
NAMES = ['a', 'b', 'c']
FN = ['f', 'g', 'h']

class G:
    def __init__(self, rng):
        self.rng = rng; self.site = 0; self.out = []
    def S(self):
        self.site += 1; return self.site
    def rd(self, names=None):
        n = self.rng.choice(names or NAMES + FN[:1])
        return '_o.r(_o.p(%d), %s)' % (self.S(), n)
    def emit(self, ind, text): self.out.append('    ' * ind + text)
    def block(self, ind, d, kind, outer_fn_names, lo=1, hi=4):
        n = self.rng.randint(lo, hi)
        for _ in range(n): self.stmt(ind, d, kind, outer_fn_names)
    def stmt(self, ind, d, kind, ofn):
        r = self.rng.random()
        nm = self.rng.choice(NAMES)
        if d <= 0 or r < 0.22:
            self.emit(ind, '%s = _o.b(%d)' % (nm, self.S())); return
        if r < 0.40:
            self.emit(ind, self.rd()); return
        if r < 0.48:
            self.emit(ind, 'if _o.d(2) == 0:'); self.block(ind + 1, d - 1, kind, ofn, 1, 2)
            if self.rng.random() < 0.5:
                self.emit(ind, 'else:'); self.block(ind + 1, d - 1, kind, ofn, 1, 2)
            return
        if r < 0.54:
            self.emit(ind, 'for %s in _o.it([%s], %d):' % (nm, self.rd() if self.rng.random() < .5 else '', self.S()))
            self.block(ind + 1, d - 1, kind, ofn, 1, 2); return
        if r < 0.62:
            self.emit(ind, '[%s for %s in _o.it([%s], %d)%s]' % (self.rd(), nm, self.rd() if self.rng.random() < .5 else '', self.S(),
                      (' if ' + self.rd()) if self.rng.random() < .4 else '')); return
        if r < 0.68:
            p = self.rng.choice(NAMES)
            self.emit(ind, '%s = lambda %s=_o.b(%d), *, k=%s: [%s, %s]' % (self.rng.choice(FN), p, self.S(), self.rd(), self.rd(), self.rd([p, 'k'])))
            return
        if r < 0.74:
            self.emit(ind, '_o.call(%s)' % self.rd(FN)); return
        if r < 0.90:
            fn = self.rng.choice(FN)
            params = []
            p1 = self.rng.choice(NAMES)
            form = self.rng.choice(['pos', 'posonly', 'kwonly', 'star', 'none'])
            if form == 'pos': params.append('%s=_o.b(%d)' % (p1, self.S()))
            elif form == 'posonly': params.append('%s=_o.b(%d), /' % (p1, self.S()))
            elif form == 'kwonly': params.append('*, %s=%s' % (p1, '_o.b(%d)' % self.S()))
            elif form == 'star': params.append('*%s' % p1)
            if self.rng.random() < .3: params.append('q=[%s]' % self.rd()) if form not in ('star',) else None
            if kind == 'class' and self.rng.random() < .0: pass
            deco = self.rng.random() < 0.25
            if deco: self.emit(ind, '@_o.deco(%s)' % self.rd())
            self.emit(ind, 'def %s(%s):' % (fn, ', '.join(x for x in params if x)))
            decl = self.rng.random()
            body_start = len(self.out)
            if decl < 0.15:
                self.emit(ind + 1, 'global %s' % nm)
            elif decl < 0.30 and kind == 'func':
                self.emit(ind + 1, 'nonlocal_placeholder %s' % nm)
            self.block(ind + 1, d - 1, 'func', ofn)
            if self.rng.random() < .3: self.emit(ind + 1, 'return')
            if self.rng.random() < .7: self.emit(ind, '_o.call(%s)' % ('_o.r(_o.p(%d), %s)' % (self.S(), fn)))
            return
        cn = self.rng.choice(['K', 'L'])
        base = self.rng.random()
        hdr = 'class %s' % cn
        if base < .3: hdr += '(_o.base(%s))' % self.rd()
        elif base < .45: hdr += '(metaclass=_o.meta(%s))' % self.rd()
        self.emit(ind, hdr + ':'); self.block(ind + 1, d - 1, 'class', ofn)

def gen(rng):
    g = G(rng)
    g.block(0, 3, 'module', [], 3, 6)
    src = '\n'.join(g.out) + '\n'
    return src

def fix_nonlocal(src):
    # nonlocal only valid if an enclosing *function* binds the name; otherwise drop the line. decide by trying to compile.
    lines = src.split('\n')
    for i, l in enumerate(lines):
        if 'nonlocal_placeholder' in l:
            trial = lines[:]; trial[i] = l.replace('nonlocal_placeholder', 'nonlocal')
            for j in range(len(trial)):
                if 'nonlocal_placeholder' in trial[j]: trial[j] = trial[j].replace('nonlocal_placeholder ', 'pass #')
            try:
                compile('\n'.join(trial), '<p>', 'exec'); lines[i] = l.replace('nonlocal_placeholder', 'nonlocal')
            except SyntaxError:
                lines[i] = l.replace('nonlocal_placeholder ', 'pass #')
    return '\n'.join(lines)

class Tok:
    def __init__(s, site): s.site = site
    def __call__(s, *a, **k): return s
    def __iter__(s): return iter(())
class O:
    def __init__(self, rng): self.rng = rng; self.ok = set(); self.depth = 0
    def d(self, n): return self.rng.randrange(n)
    def b(self, s): return Tok(s)
    def p(self, s): self.cur = s; return s
    def r(self, s, x): self.ok.add(s); return x
    def it(self, _reads, site): return [Tok(site) for _ in range(self.rng.randrange(3))]
    def call(self, f):
        if self.depth > 3: return
        self.depth += 1
        try:
            if callable(f) and not isinstance(f, (Tok, type)): f()
        except TypeError: pass
        finally: self.depth -= 1
    def deco(self, _x): return lambda f: f
    def base(self, _x): return object
    def meta(self, _x): return type

def run(src, seed, n=25):
    ok = set()
    code = compile(src, '<p>', 'exec')
    for i in range(n):
        o = O(random.Random(seed * 1000 + i))
        try: exec(code, {'_o': o})
        except (NameError, RecursionError): pass
        ok |= o.ok
    return ok

def supp_vis(src):
    scope = extract_scope(Source(src), P)
    lines = src.split('\n'); vis = {}
    for name in get_name_usages(scope.source.tree):
        if name.id.startswith('_'): continue
        seg = lines[name.lineno - 1][:name.col_offset]
        m = re.search(r'_o\.p\((\d+)\), $', seg)
        if not m: continue
        s = int(m.group(1))
        if not hasattr(name, 'flow'): vis[s] = 'E42'; continue
        vis[s] = 'ok' if name.id in name.flow.names_at(np(name)) else 'E02'
    return vis

rng = random.Random(int(sys.argv[2])); N = int(sys.argv[3])
stats = collections.Counter(); ex = {}
done = 0
while done < N:
    src = fix_nonlocal(gen(rng))
    try: compile(src, '<p>', 'exec')
    except SyntaxError as e:
        stats['syntax ' + str(e.msg)[:40]] += 1; continue
    done += 1
    ok = run(src, done)
    try: vis = supp_vis(src)
    except BaseException as e:
        k = 'supp-exc %s %s' % (type(e).__name__, str(e)[:50]); stats[k] += 1; ex.setdefault(k, (src, None)); continue
    for s in ok:
        if vis.get(s) in ('E02', 'E42'):
            line = [l for l in src.split('\n') if '_o.p(%d),' % s in l][0].strip()
            k = 'C01 ' + vis[s]; stats[k] += 1
            if len([1 for kk in ex if kk[0] == k]) < 6: ex[(k, s, done)] = (src, line)
print(dict(stats))
for k, (src, line) in list(ex.items())[:8]:
    print('=====', k, line); print(src)
