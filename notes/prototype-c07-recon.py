import sys, os, random, shutil, collections, importlib, importlib.util, importlib.machinery
SUPP = sys.argv[1]; sys.path.insert(0, SUPP)
import logging; logging.disable(logging.CRITICAL)
from supp.project import Project
rng = random.Random(int(sys.argv[2])); N = int(sys.argv[3])
BASE = '/tmp/proto/c7'
NAMES = ['a', 'b']
def gen_dir(depth):
    d = {}
    for n in NAMES:
        k = rng.choice(['absent', 'absent', 'mod', 'pkg', 'pkg']) if depth > 0 else rng.choice(['absent', 'mod'])
        if k == 'mod': d[n] = 'mod'
        elif k == 'pkg': d[n] = gen_dir(depth - 1)
    return d
def write(path, tree):
    os.makedirs(path, exist_ok=True)
    for n, v in tree.items():
        if v == 'mod': open(os.path.join(path, n + '.py'), 'w').close()
        else:
            write(os.path.join(path, n), v); open(os.path.join(path, n, '__init__.py'), 'w').close()
def all_names(depth):
    out = []
    def rec(prefix, d):
        for n in NAMES:
            nm = prefix + [n]; out.append('.'.join(nm))
            if d > 1: rec(nm, d - 1)
    rec([], depth); return out
def ref_find(name, roots):
    parts = name.split('.'); path = roots
    spec = None
    for i in range(len(parts)):
        spec = importlib.machinery.PathFinder.find_spec('.'.join(parts[:i + 1]), path)
        if spec is None: return None
        if i < len(parts) - 1:
            if spec.submodule_search_locations is None: return None
            path = list(spec.submodule_search_locations)
    return spec.origin
stats = collections.Counter(); ex = {}
for t in range(N):
    shutil.rmtree(BASE, ignore_errors=True)
    nroots = rng.randint(1, 2); roots = []
    for r in range(nroots):
        root = os.path.join(BASE, 't%d_r%d' % (t, r)); write(root, gen_dir(2)); roots.append(root)
    importlib.invalidate_caches()
    P = Project(list(roots))
    saved = sys.path[:]
    for nm in all_names(3):
        ref = ref_find(nm, roots)
        try:
            m = P.get_module(nm); got = getattr(m, 'filename', 'IMPORTED')
        except ImportError: got = None
        except BaseException as e: got = 'EXC ' + type(e).__name__
        stats['lookups'] += 1
        if got != ref:
            k = 'find: supp=%s ref=%s roots=%d' % ('file' if got and got != 'IMPORTED' else got, 'file' if ref else None, nroots)
            stats[k] += 1; ex.setdefault(k, (nm, got, ref))
    # relative names from every file
    for root in roots:
        for dp, dn, fn in os.walk(root):
            for f in fn:
                full = os.path.join(dp, f); rel = os.path.relpath(full, root)[:-3].split(os.sep)
                if rel[-1] == '__init__': pkg = '.'.join(rel[:-1])
                else: pkg = '.'.join(rel[:-1])
                for level in (1, 2, 3, 4):
                    for tail in ('', 'a', 'b.a'):
                        spec = '.' * level + tail
                        try: ref = importlib.util.resolve_name(spec, pkg) if pkg else 'IMPORTERROR'
                        except ImportError: ref = 'IMPORTERROR'
                        try: got = P.norm_package(spec, full)
                        except ImportError: got = 'IMPORTERROR'
                        except BaseException as e: got = 'EXC ' + type(e).__name__
                        stats['norm'] += 1
                        if got != ref:
                            k = 'norm: supp=%s ref=%s' % (got if got.startswith(('EXC', 'IMPORT')) else 'name', ref if ref == 'IMPORTERROR' else 'name')
                            stats[k] += 1; ex.setdefault(k, (spec, full, pkg, got, ref))
    # children
    import pkgutil
    for nm in [''] + all_names(2):
        if nm:
            o = ref_find(nm, roots)
            if not o or not o.endswith('__init__.py'): continue
            ref = {m.name for m in pkgutil.iter_modules([os.path.dirname(o)])}
            got = P.list_packages(nm)
            stats['list'] += 1
            missing = ref - got; extra = {x for x in got - ref if ref_find(nm + '.' + x, roots) is None and (nm + '.' + x) not in sys.modules}
            if missing or extra:
                k = 'list: missing=%s extra=%s roots=%d' % (bool(missing), bool(extra), nroots); stats[k] += 1; ex.setdefault(k, (nm, sorted(got), sorted(ref)))
shutil.rmtree(BASE, ignore_errors=True)
for k, v in sorted(stats.items()): print(v, k, ex.get(k, ''))
