---- MODULE PB ----
(* Design-phase prototype of PyBind: name-binding semantics of a one-scope
   Python fragment with loops (else), try/except/else/finally, raise, return
   (terminates the program at module level is illegal, so the program body is
   a function body), break, continue, except-as unbinding.
   Enumerates every complete execution: decision and observation histories
   are part of the state. *)
EXTENDS Naturals, Sequences, FiniteSets, TLC, Json, IOUtils

Programs == JsonDeserialize(IOEnv.PB_PROGRAMS)
NP == Len(Programs)

VARIABLES pid, k, env, pend, dec, obs
vars == <<pid, k, env, pend, dec, obs>>

N(i) == Programs[pid].nodes[i]
NONE == [t |-> "none", v |-> 0]
NAMEERR == 0          \* exception kind 0 = NameError, never caught by program handlers

Frame(n, ph, aux) == [n |-> n, ph |-> ph, aux |-> aux]
Top == k[Len(k)]
Pop == SubSeq(k, 1, Len(k) - 1)
SetTop(f) == [k EXCEPT ![Len(k)] = f]
PushOn(s, n) == IF n = 0 THEN s ELSE Append(s, Frame(n, 0, NONE))

Init == /\ pid \in 1..NP
        /\ k = << Frame(1, 0, NONE) >>
        /\ env = [x \in {} |-> 0]
        /\ pend = NONE
        /\ dec = <<>>
        /\ obs = <<>>

Get(n) == IF n \in DOMAIN env THEN env[n] ELSE 0
Set(n, v) == [x \in DOMAIN env \cup {n} |-> IF x = n THEN v ELSE env[x]]

Catches(h, kind) == LET hk == N(h).kinds IN Len(hk) = 0 \/ \E i \in 1..Len(hk): hk[i] = kind
FirstHandler(hs, kind) ==
  LET idx == {i \in 1..Len(hs): Catches(hs[i], kind)} IN
  IF idx = {} THEN 0 ELSE hs[CHOOSE i \in idx: \A j \in idx: i <= j]

-----------------------------------------------------------------------------
Normal ==
  /\ pend.t = "none" /\ k # <<>>
  /\ LET f == Top  nd == N(f.n) IN
     CASE nd.k = "seq" ->
            /\ k' = IF f.ph < Len(nd.c)
                    THEN PushOn(SetTop(Frame(f.n, f.ph + 1, f.aux)), nd.c[f.ph + 1])
                    ELSE Pop
            /\ UNCHANGED <<env, pend, dec, obs>>
       [] nd.k = "bind" ->
            /\ env' = Set(nd.n, nd.s) /\ k' = Pop /\ UNCHANGED <<pend, dec, obs>>
       [] nd.k = "read" ->
            /\ obs' = Append(obs, <<nd.s, Get(nd.n)>>)
            /\ pend' = IF Get(nd.n) = 0 THEN [t |-> "exc", v |-> NAMEERR] ELSE NONE
            /\ k' = Pop /\ UNCHANGED <<env, dec>>
       [] nd.k = "if" ->
            \E b \in {0, 1}:
              /\ dec' = Append(dec, b)
              /\ k' = PushOn(Pop, nd.c[b + 1])
              /\ UNCHANGED <<env, pend, obs>>
       [] nd.k = "while" ->     \* c = <<test, body, orelse>>; aux.v = trips so far
            IF f.ph = 0
            THEN /\ k' = PushOn(SetTop(Frame(f.n, 1, f.aux)), nd.c[1])
                 /\ UNCHANGED <<env, pend, dec, obs>>
            ELSE \/ /\ f.aux.v < 2
                    /\ dec' = Append(dec, 1)
                    /\ k' = PushOn(SetTop(Frame(f.n, 0, [t |-> "loop", v |-> f.aux.v + 1])), nd.c[2])
                    /\ UNCHANGED <<env, pend, obs>>
                 \/ /\ dec' = Append(dec, 0)
                    /\ k' = PushOn(Pop, nd.c[3])
                    /\ UNCHANGED <<env, pend, obs>>
       [] nd.k = "for" ->       \* c = <<iter, target, body, orelse>>
            IF f.ph = 0
            THEN /\ k' = PushOn(SetTop(Frame(f.n, 1, f.aux)), nd.c[1])
                 /\ UNCHANGED <<env, pend, dec, obs>>
            ELSE \/ /\ f.aux.v < 2
                    /\ dec' = Append(dec, 1)
                    /\ k' = PushOn(PushOn(SetTop(Frame(f.n, 1, [t |-> "loop", v |-> f.aux.v + 1])), nd.c[3]), nd.c[2])
                    /\ UNCHANGED <<env, pend, obs>>
                 \/ /\ dec' = Append(dec, 0)
                    /\ k' = PushOn(Pop, nd.c[4])
                    /\ UNCHANGED <<env, pend, obs>>
       [] nd.k = "try" ->       \* c = <<body, orelse, final>>, hs = handlers
            /\ CASE f.ph = 0 -> k' = PushOn(SetTop(Frame(f.n, 1, NONE)), nd.c[1])
                 [] f.ph = 1 -> k' = PushOn(SetTop(Frame(f.n, 2, NONE)), nd.c[2])
                 [] f.ph \in {2, 3} -> k' = PushOn(SetTop(Frame(f.n, 4, NONE)), nd.c[3])
                 [] f.ph = 4 -> k' = Pop
            /\ pend' = IF f.ph = 4 THEN f.aux ELSE NONE
            /\ UNCHANGED <<env, dec, obs>>
       [] nd.k = "handler" ->   \* c = <<body>>
            IF f.ph = 0
            THEN /\ env' = IF nd.n = "" THEN env ELSE Set(nd.n, nd.s)
                 /\ k' = PushOn(SetTop(Frame(f.n, 1, NONE)), nd.c[1])
                 /\ UNCHANGED <<pend, dec, obs>>
            ELSE /\ env' = IF nd.n = "" THEN env ELSE Set(nd.n, 0)
                 /\ k' = Pop /\ UNCHANGED <<pend, dec, obs>>
       [] nd.k = "mayraise" ->  \* kinds = possible kinds
            \E j \in 0..Len(nd.kinds):
              /\ dec' = Append(dec, j)
              /\ pend' = IF j = 0 THEN NONE ELSE [t |-> "exc", v |-> nd.kinds[j]]
              /\ k' = Pop /\ UNCHANGED <<env, obs>>
       [] nd.k = "raise" ->
            /\ pend' = [t |-> "exc", v |-> nd.s] /\ k' = Pop /\ UNCHANGED <<env, dec, obs>>
       [] nd.k \in {"return", "break", "continue"} ->
            /\ pend' = [t |-> nd.k, v |-> 0] /\ k' = Pop /\ UNCHANGED <<env, dec, obs>>
  /\ UNCHANGED pid

Unwind ==
  /\ pend.t # "none" /\ k # <<>>
  /\ LET f == Top  nd == N(f.n) IN
     CASE nd.k = "try" /\ f.ph = 1 /\ pend.t = "exc" /\ pend.v # NAMEERR
                       /\ FirstHandler(nd.hs, pend.v) # 0 ->
            /\ k' = PushOn(SetTop(Frame(f.n, 3, NONE)), FirstHandler(nd.hs, pend.v))
            /\ pend' = NONE /\ UNCHANGED env
       [] nd.k = "try" /\ f.ph \in {1, 2, 3} ->      \* run finally with the jump saved
            IF nd.c[3] = 0
            THEN k' = Pop /\ UNCHANGED <<pend, env>>
            ELSE /\ k' = PushOn(SetTop(Frame(f.n, 4, pend)), nd.c[3])
                 /\ pend' = NONE /\ UNCHANGED env
       [] nd.k = "handler" /\ f.ph = 1 ->
            /\ env' = IF nd.n = "" THEN env ELSE Set(nd.n, 0)
            /\ k' = Pop /\ UNCHANGED pend
       [] nd.k \in {"while", "for"} /\ f.aux.t = "loop" /\ pend.t = "break" ->
            /\ k' = Pop /\ pend' = NONE /\ UNCHANGED env
       [] nd.k \in {"while", "for"} /\ f.aux.t = "loop" /\ pend.t = "continue" ->
            /\ k' = k /\ pend' = NONE /\ UNCHANGED env
       [] OTHER -> k' = Pop /\ UNCHANGED <<pend, env>>
  /\ UNCHANGED <<pid, dec, obs>>

Terminated == k = <<>>
Next == Normal \/ Unwind
Spec == Init /\ [][Next]_vars

\* print every complete execution once (terminal states are distinct because histories are in the state)
Emit == Terminated => PrintT(ToJson([pid |-> pid, dec |-> dec, obs |-> obs, pend |-> pend.t]))
====
