import sys, random, collections, itertools
SUPP = sys.argv[1]
sys.argv = [sys.argv[0], SUPP, '1', '0']
src = open('/tmp/proto/scopes_recon.py').read().split("rng = random.Random(int(sys.argv[2]))")[0]
ns = {}; exec(compile(src, 'lib', 'exec'), ns)
import pb_conf as pc
from supp.util import Source, np, get_name_usages
from supp.nast import extract_scope
from supp.project import Project
from supp.name import MultiName
P = Project(['/tmp/recon/empty'])
def ans(r):
    v = r.flow.names_at(np(r)).get(r.id)
    if v is None: return None
    if isinstance(v, MultiName): return tuple(sorted(repr(x) for x in v.alt_names))
    return repr(v)
rng = random.Random(5); stats = collections.Counter(); shown = 0
def programs():
    for i in range(300):
        s = ns['fix_nonlocal'](ns['gen'](rng))
        try: compile(s, '<p>', 'exec'); yield s
        except SyntaxError: pass
    r2 = random.Random(9)
    for i in range(300):
        nodes = pc.gen_program(r2, 3); s = pc.render(nodes)
        try: compile(s, '<p>', 'exec'); yield s
        except SyntaxError: pass
for s in programs():
    def reads():
        sc = extract_scope(Source(s), P)
        return [n for n in get_name_usages(sc.source.tree) if hasattr(n, 'flow') and not n.id.startswith('_')]
    n = len(reads())
    if n < 2: continue
    fresh = {}
    for i in range(n): fresh[i] = ans(reads()[i])
    orders = []
    idx = list(range(n))
    if n <= 5: orders = list(itertools.permutations(idx))
    else:
        orders = [idx, idx[::-1]] + [rng.sample(idx, n) for _ in range(40)]
    stats['programs'] += 1
    for o in orders:
        rs = reads()
        for i in o:
            stats['queries'] += 1
            if ans(rs[i]) != fresh[i]:
                stats['DIFF'] += 1
                if shown < 2: shown += 1; print('order', o, 'read', i, rs[i].id, np(rs[i])); print(s)
print(dict(stats))
