"""Design-phase prototype: two-way conformance of PB.tla (TLA+ binding semantics)
against CPython on random one-scope programs.  Not framework code."""
import json, random, subprocess, sys, os, re, time

NAMES = ['a', 'b', 'c']
KINDS = [1, 2]


class Gen:
    def __init__(self, rng, maxdepth):
        self.rng = rng
        self.nodes = [None]          # nodes[0] unused placeholder -> 1-based ids
        self.site = 0
        self.loopid = 0
        self.maxdepth = maxdepth

    def new(self, **kw):
        rec = dict(k='', c=[], n='', s=0, kinds=[], hs=[])
        rec.update(kw)
        self.nodes.append(rec)
        return len(self.nodes) - 1

    def nsite(self):
        self.site += 1
        return self.site

    def bind(self, name=None):
        return self.new(k='bind', n=name or self.rng.choice(NAMES), s=self.nsite())

    def read(self):
        return self.new(k='read', n=self.rng.choice(NAMES), s=self.nsite())

    def reads(self, lo=0, hi=2):
        return self.new(k='seq', c=[self.read() for _ in range(self.rng.randint(lo, hi))])

    def block(self, d, inloop, lo=1, hi=3):
        return self.new(k='seq', c=[self.stmt(d, inloop) for _ in range(self.rng.randint(lo, hi))])

    def stmt(self, d, inloop):
        r = self.rng.random()
        if d <= 0 or r < 0.25:
            return self.bind()
        if r < 0.45:
            return self.read()
        if r < 0.55:
            return self.new(k='mayraise', kinds=self.rng.sample(KINDS, self.rng.randint(1, 2)), s=self.nsite())
        if r < 0.60:
            if inloop and self.rng.random() < 0.7:
                return self.new(k=self.rng.choice(['break', 'continue']))
            return self.new(k=self.rng.choice(['return', 'raise']), s=self.rng.choice(KINDS))
        if r < 0.72:
            a = self.block(d - 1, inloop)
            b = self.block(d - 1, inloop) if self.rng.random() < 0.6 else 0
            return self.new(k='if', c=[a, b])
        if r < 0.80:
            t = self.reads()
            body = self.block(d - 1, True)
            e = self.block(d - 1, inloop, 1, 2) if self.rng.random() < 0.4 else 0
            self.loopid += 1
            return self.new(k='while', c=[t, body, e], s=self.loopid)
        if r < 0.88:
            it = self.reads()
            tgt = self.bind()
            body = self.block(d - 1, True)
            e = self.block(d - 1, inloop, 1, 2) if self.rng.random() < 0.4 else 0
            return self.new(k='for', c=[it, tgt, body, e])
        body = self.block(d - 1, inloop)
        CANON = self.rng.random() < 0.7
        hs = []
        for _ in range(self.rng.randint(0, 2)):
            kinds = self.rng.choice([[], [1], [2], [1, 2]])
            nm = self.rng.choice(NAMES + ['', ''])
            hs.append(self.new(k='handler', kinds=kinds, n=nm, s=self.nsite() if nm else 0,
                               c=[self.block(d - 1, inloop, 1, 2)]))
        fin = self.block(d - 1, inloop, 1, 2) if (not hs or self.rng.random() < 0.5) else 0
        e = self.block(d - 1, inloop, 1, 2) if (hs and self.rng.random() < 0.4) else 0
        if CANON and hs:
            b = self.nodes[body]
            b['c'] = [self.new(k='mayraise', kinds=[1, 2], s=self.nsite())] + b['c'] + [self.new(k='mayraise', kinds=[1, 2], s=self.nsite())]
        return self.new(k='try', c=[body, e, fin], hs=hs)


def gen_program(rng, maxdepth=3):
    g = Gen(rng, maxdepth)
    g.nodes.append(None)                      # reserve id 1 for the root
    root_body = [g.stmt(maxdepth, False) for _ in range(rng.randint(2, 4))]
    g.nodes[1] = dict(k='seq', c=root_body, n='', s=0, kinds=[], hs=[])
    return g.nodes[1:]                        # list index i-1 <-> node id i


def render(nodes):
    N = lambda i: nodes[i - 1]
    out = []

    def expr_reads(i):
        return '[' + ', '.join('_o.r(_o.p(%d), %s)' % (N(c)['s'], N(c)['n']) for c in N(i)['c']) + ']'

    def emit(i, ind):
        nd = N(i)
        pad = '    ' * ind
        k = nd['k']
        if k == 'seq':
            if not nd['c']:
                out.append(pad + 'pass')
            for c in nd['c']:
                emit(c, ind)
        elif k == 'bind':
            out.append(pad + '%s = _o.b(%d)' % (nd['n'], nd['s']))
        elif k == 'read':
            out.append(pad + '_o.r(_o.p(%d), %s)' % (nd['s'], nd['n']))
        elif k == 'mayraise':
            out.append(pad + '_o.q(%r)' % (nd['kinds'],))
        elif k == 'raise':
            out.append(pad + 'raise _E[%d]()' % nd['s'])
        elif k in ('return', 'break', 'continue'):
            out.append(pad + k)
        elif k == 'if':
            out.append(pad + 'if _o.d(2) == 0:')
            emit(nd['c'][0], ind + 1)
            if nd['c'][1]:
                out.append(pad + 'else:')
                emit(nd['c'][1], ind + 1)
        elif k == 'while':
            out.append(pad + '_o.ws(%d)' % nd['s'])
            out.append(pad + 'while _o.w(%d, %s):' % (nd['s'], expr_reads(nd['c'][0])))
            emit(nd['c'][1], ind + 1)
            if nd['c'][2]:
                out.append(pad + 'else:')
                emit(nd['c'][2], ind + 1)
        elif k == 'for':
            t = N(nd['c'][1])
            out.append(pad + 'for %s in _o.it(%s, %d):' % (t['n'], expr_reads(nd['c'][0]), t['s']))
            emit(nd['c'][2], ind + 1)
            if nd['c'][3]:
                out.append(pad + 'else:')
                emit(nd['c'][3], ind + 1)
        elif k == 'try':
            out.append(pad + 'try:')
            emit(nd['c'][0], ind + 1)
            for h in nd['hs']:
                hd = N(h)
                cls = '_EB' if not hd['kinds'] else '(' + ', '.join('_E[%d]' % x for x in hd['kinds']) + ',)'
                out.append(pad + 'except %s%s:' % (cls, (' as ' + hd['n']) if hd['n'] else ''))
                emit(hd['c'][0], ind + 1)
            if nd['c'][1]:
                out.append(pad + 'else:')
                emit(nd['c'][1], ind + 1)
            if nd['c'][2]:
                out.append(pad + 'finally:')
                emit(nd['c'][2], ind + 1)
        else:
            raise AssertionError(k)

    out.append('def _prog(_o, _E, _EB):')
    emit(1, 1)
    return '\n'.join(out) + '\n'


class _EB(Exception):
    pass


_E = {1: type('_E1', (_EB,), {}), 2: type('_E2', (_EB,), {})}


class Token:
    def __init__(self, site):
        self.site = site


class Oracle:
    def __init__(self, script, handler_sites):
        self.script = script
        self.pos = 0
        self.dec = []
        self.arity = []
        self.obs = []
        self.trips = {}
        self.handler_sites = handler_sites

    def d(self, n, forced=None):
        if forced is not None:
            v = forced
            self.arity.append(1)
        else:
            v = self.script[self.pos] if self.pos < len(self.script) else 0
            self.arity.append(n)
        self.pos += 1
        self.dec.append(v)
        return v

    def b(self, s):
        return Token(s)

    def p(self, s):
        self.obs.append([s, 0])      # provisional: name unbound unless r() overwrites
        return s

    def r(self, s, x):
        self.obs[-1] = [s, x.site if isinstance(x, Token) else 'exc']
        return x

    def q(self, kinds):
        j = self.d(len(kinds) + 1)
        if j:
            raise _E[kinds[j - 1]]()

    def ws(self, lid):
        self.trips[lid] = 0

    def w(self, lid, _reads):
        if self.trips[lid] < 2:
            go = self.d(2)        # model: 1 = continue, 0 = exit; script stores the model's value
        else:
            go = self.d(1, forced=0)
        if go:
            self.trips[lid] += 1
        return bool(go)

    def it(self, _reads, site):
        trips = 0
        while True:
            go = self.d(2) if trips < 2 else self.d(1, forced=0)
            if not go:
                return
            trips += 1
            yield Token(site)


def decode_if(v):
    return v


def run_cpython(src, nodes):
    ns = {}
    exec(compile(src, '<prog>', 'exec'), ns)
    prog = ns['_prog']
    handler_sites = {n['s'] for n in nodes if n['k'] == 'handler' and n['s']}
    results = set()
    stack = [[]]
    runs = 0
    while stack:
        script = stack.pop()
        o = Oracle(script, handler_sites)
        outcome = 'none'
        try:
            prog(o, _E, _EB)
        except NameError:
            outcome = 'exc'
        except _EB:
            outcome = 'exc'
        runs += 1
        if runs > 20000:
            return None
        # branch on decisions taken beyond the script
        for i in range(len(script), len(o.dec)):
            for alt in range(1, o.arity[i]):
                stack.append(o.dec[:i] + [alt])
        results.add((tuple(o.dec), tuple(map(tuple, o.obs)), outcome))
    return results


def main():
    seed = int(sys.argv[1]); n = int(sys.argv[2])
    rng = random.Random(seed)
    progs = []
    while len(progs) < n:
        nodes = gen_program(rng, 3)
        src = render(nodes)
        try:
            compile(src, '<prog>', 'exec')
        except SyntaxError as e:
            continue
        progs.append((nodes, src))
    t0 = time.time()
    cp = []
    keep = []
    for nodes, src in progs:
        r = run_cpython(src, nodes)
        if r is None or len(r) > 3000:
            continue
        keep.append((nodes, src)); cp.append(r)
    progs = keep
    print('cpython: %d programs, %d executions, %.1fs' % (len(progs), sum(map(len, cp)), time.time() - t0))
    json.dump([{'nodes': nodes} for nodes, _ in progs], open('/tmp/proto/pb_progs.json', 'w'))
    t0 = time.time()
    env = dict(os.environ, PB_PROGRAMS='/tmp/proto/pb_progs.json')
    cmd = ['java', '-XX:+UseSerialGC', '-Xmx6g', '-Xss64m', '-cp',
           '/opt/veriftools/tla/tla2tools.jar:/opt/veriftools/tla/CommunityModules-deps.jar', 'tlc2.TLC',
           '-workers', '1', '-metadir', '/tmp/proto/pbmeta', '-noGenerateSpecTE', '-config', 'PB.cfg', 'PB.tla']
    subprocess.run(['rm', '-rf', '/tmp/proto/pbmeta'])
    out = subprocess.run(cmd, cwd='/tmp/proto', env=env, capture_output=True, text=True).stdout
    m = re.search(r'(\d+) states generated, (\d+) distinct states', out)
    print('tlc: %s, %.1fs' % (m.group(0) if m else out[-2000:], time.time() - t0))
    tl = [set() for _ in progs]
    for line in out.splitlines():
        line = line.strip()
        if line.startswith('"{') and line.endswith('}"'):
            rec = json.loads(json.loads(line))
            # model if-decision: 1 = body, 2 = orelse ; python: 0 = body, 1 = else  -> normalise below
            tl[rec['pid'] - 1].add((tuple(rec['dec']), tuple((a, b) for a, b in rec['obs']),
                                    'exc' if rec['pend'] == 'exc' else 'none'))
    bad = 0
    for i, ((nodes, src), a, b) in enumerate(zip(progs, cp, tl)):
        hs = {n['s'] for n in nodes if n['k'] == 'handler' and n['s']}

        def norm_t(e):
            dec, obs, out_ = e
            return (dec, tuple((s, 'exc' if v in hs else v) for s, v in obs), out_)
        bn = {norm_t(e) for e in b}
        if a != bn:
            bad += 1
            if bad <= 3:
                print('MISMATCH program', i + 1)
                print(src)
                print(' only cpython:', sorted(a - bn)[:3])
                print(' only tlc    :', sorted(bn - a)[:3])
    print('programs compared: %d, mismatching: %d' % (len(progs), bad))


if __name__ == '__main__':
    main()
