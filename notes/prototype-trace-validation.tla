---- MODULE CT ----
(* Design-phase prototype of trace validation (direction B) for C09:
   histories recorded from the real Project are consumed event by event. *)
EXTENDS Naturals, Sequences, FiniteSets, TLC, Json, IOUtils
Hist == JsonDeserialize(IOEnv.CT_HISTORIES)
NH == Len(Hist)
Mods == {"b", "c"}
VARIABLES hid, l, disk, ok
vars == <<hid, l, disk, ok>>
Ev == Hist[hid].events[l]
Init == hid \in 1..NH /\ l = 1 /\ disk = [m \in Mods |-> 0] /\ ok = TRUE
\* reference: through "a" (import b; b star-imports c) the visible markers are b's and c's current versions
Expected == [m \in Mods |-> IF disk["b"] = 0 THEN 0 ELSE disk[m]]
Write == /\ l <= Len(Hist[hid].events) /\ Ev.op = "write"
         /\ disk' = [disk EXCEPT ![Ev.mod] = Ev.ver] /\ l' = l + 1 /\ UNCHANGED <<hid, ok>>
Touch == /\ l <= Len(Hist[hid].events) /\ Ev.op = "touch"
         /\ l' = l + 1 /\ UNCHANGED <<hid, disk, ok>>
Req ==   /\ l <= Len(Hist[hid].events) /\ Ev.op = "req"
         /\ Ev.fresh = Expected                      \* reference validation: else the trace is not consumed
         /\ ok' = (ok /\ Ev.long = Ev.fresh)         \* the property
         /\ IF Ev.long = Ev.fresh THEN TRUE ELSE PrintT(<<"VFAIL", "C09", Hist[hid].id, "long#fresh", l>>)
         /\ l' = l + 1 /\ UNCHANGED <<hid, disk>>
Next == Write \/ Touch \/ Req
Spec == Init /\ [][Next]_vars
Consumed == l = Len(Hist[hid].events) + 1
\* count consumed histories with TLC registers (single worker)
Count == IF Consumed THEN TLCSet(1, TLCGet(1) \cup {hid}) ELSE TRUE
ASSUME TLCSet(1, {})
Post == PrintT(<<"VDONE", "C09", NH, Cardinality(TLCGet(1))>>) /\ Cardinality(TLCGet(1)) = NH
====
