"""Reproduces the existing C04 violations F1 and F2 on the unchanged tree (API level)."""
import os, sys, shutil, tempfile, logging
sys.path.insert(0, '/tmp/seed/c04c')
logging.disable(logging.CRITICAL)
from supp.project import Project
from supp.assistant import assist, location

CASES = {
 'F1': ({'m.py': 'class K:\n    def m(self): return self\nk = K().m()\nk.a = 1\nj = K()\n'},
        'import m\nm.k.a\nm.j.a\n', ('assist', (2, 4)), ('assist', (3, 4))),
 'F2': ({'m.py': 'class Z:\n    zz = 1\nclass K:\n    def __init__(self):\n        self.x = foo\nif c:\n    foo = K().x.y\nelse:\n    foo = Z()\nbar = foo\n'},
        'import m\nm.bar.zz\nm.K().x.zz\n', ('assist', (2, 6)), ('assist', (3, 8))),
}
rc = 0
for name, (mods, text, first, second) in sorted(CASES.items()):
    d = tempfile.mkdtemp(prefix='c04f')
    try:
        for fn, t in mods.items():
            open(os.path.join(d, fn), 'w').write(t)
        main = os.path.join(d, 'main.py')
        def call(p, c):
            with p.check_changes():
                return {'assist': assist, 'location': location}[c[0]](p, text, c[1], main)
        fresh = call(Project([d]), second)
        p = Project([d])
        call(p, first)
        after = call(p, second)
        print(name, 'fresh', second, '->', fresh)
        print(name, 'after', first, '->', after)
        if fresh != after:
            rc = 1
            print(name, 'ORDER-DEPENDENT')
    finally:
        shutil.rmtree(d)
sys.exit(rc)
