"""Feasibility prototype: drive real supp.remote.Environment threads line by line."""
import sys, threading, itertools, collections
sys.path.insert(0, '/repo')
import supp.remote as remote

REMOTE_FILE = remote.__file__

class Sched:
    def __init__(self):
        self.cv = threading.Condition()
        self.turn = None          # name of thread allowed to run one step
        self.waiting = {}         # name -> (lineno) threads parked at a line event
        self.done = set()
        self.blocked = set()
        self.log = []
    def tracer(self, frame, event, arg):
        if frame.f_code.co_filename != REMOTE_FILE:
            return None
        if event == 'call':
            return self.tracer
        if event == 'line':
            self.park(frame.f_lineno)
        return self.tracer
    def park(self, lineno):
        me = threading.current_thread().name
        with self.cv:
            self.waiting[me] = lineno
            self.cv.notify_all()
            while self.turn != me:
                self.cv.wait()
            self.turn = None
            del self.waiting[me]
            self.log.append((me, lineno))
    def step(self, name, live):
        """let thread `name` execute until its next line event (or finish/block)"""
        with self.cv:
            if name not in self.waiting:
                return False
            self.turn = name
            self.cv.notify_all()
            # wait until it parks again, finishes, or blocks
            while True:
                if self.turn is None and (name in self.waiting or name in self.done or name in self.blocked):
                    return True
                self.cv.wait(0.01)

S = Sched()

class CoopLock:
    def __init__(self): self.holder = None
    def __enter__(self):
        me = threading.current_thread().name
        while True:
            with S.cv:
                if self.holder is None:
                    self.holder = me; S.blocked.discard(me); return
                S.blocked.add(me); S.cv.notify_all()
            # blocked: give control back, wait to be scheduled again
            S.park(-1)
    def __exit__(self, *a):
        with S.cv: self.holder = None

launches = []
class FakeConn:
    def __init__(self): self.q = collections.deque()
    def send_bytes(self, b): self.q.append(b)
    def recv_bytes(self):
        req = remote.loads(self.q.popleft()); return remote.dumps((req[0], True))
    def close(self): pass

def fake_run(self):
    launches.append(threading.current_thread().name)   # line-level inside real _run skipped in prototype
    self.conn = FakeConn()

class CoopThread(threading.Thread):
    def __init__(self, target):
        super().__init__(target=self._wrap(target), name='starter')
    def _wrap(self, target):
        def run():
            sys.settrace(S.tracer)
            try: target()
            finally:
                with S.cv: S.done.add('starter'); S.cv.notify_all()
        return run
    def join(self):
        me = threading.current_thread().name
        while True:
            with S.cv:
                if 'starter' in S.done: S.blocked.discard(me); return
                S.blocked.add(me); S.cv.notify_all()
            S.park(-2)

remote.Thread = CoopThread
remote.Environment._run = fake_run

def run_schedule(schedule, ops):
    global S, launches
    S = Sched(); launches = []
    env = remote.Environment(); env.prepare_lock = CoopLock()
    results = {}
    def mk(name, op):
        def body():
            sys.settrace(S.tracer)
            try:
                results[name] = ('ok', op(env))
            except BaseException as e:
                results[name] = ('exc', type(e).__name__, str(e))
            finally:
                with S.cv: S.done.add(name); S.cv.notify_all()
        return threading.Thread(target=body, name=name)
    ths = [mk(n, op) for n, op in ops.items()]
    for t in ths: t.start()
    import time
    # wait for all to park at first line
    deadline = time.time() + 2
    while time.time() < deadline:
        with S.cv:
            if all(t.name in S.waiting or t.name in S.done for t in ths): break
        time.sleep(0.001)
    names = list(ops) + ['starter']
    for who in schedule:
        S.step(who, names)
    # drain: round robin until all done
    for _ in range(2000):
        with S.cv:
            alive = [n for n in names if n in S.waiting]
            if not alive: 
                if all(t.name in S.done for t in ths): break
        for n in alive: S.step(n, names)
    for t in ths: t.join(1)
    return results, list(launches), S.log

ops = {'A': lambda e: e.prepare(), 'B': lambda e: e._call('ping')}
import random
rng = random.Random(0); outcomes = collections.Counter()
for i in range(300):
    sched = [rng.choice(['A', 'B', 'starter']) for _ in range(40)]
    res, l, log = run_schedule(sched, ops)
    key = (len(l), tuple(sorted((k, v[0], v[1] if v[0]=='exc' else '') for k, v in res.items())))
    outcomes[key] += 1
for k, v in outcomes.items(): print(v, k)
