import sys, random, collections, json, subprocess, os, re
SUPP = sys.argv[1]
sys.path.insert(0, SUPP); sys.path.insert(0, '/tmp/proto')
import logging; logging.disable(logging.CRITICAL)
import pb_conf as pc
import diff13_lib as dl

def tlc_seen(mod, nprogs):
    env = dict(os.environ, PB_PROGRAMS='/tmp/proto/pb_progs.json')
    subprocess.run(['rm', '-rf', '/tmp/proto/meta_' + mod])
    out = subprocess.run(['java', '-XX:+UseSerialGC', '-Xmx6g', '-Xss64m', '-cp',
        '/opt/veriftools/tla/tla2tools.jar:/opt/veriftools/tla/CommunityModules-deps.jar', 'tlc2.TLC',
        '-workers', '1', '-metadir', '/tmp/proto/meta_' + mod, '-noGenerateSpecTE', '-config', mod + 'S.cfg', mod + 'S.tla'],
        cwd='/tmp/proto', env=env, capture_output=True, text=True).stdout
    seen = [collections.defaultdict(set) for _ in range(nprogs)]
    for line in out.splitlines():
        line = line.strip()
        if line.startswith('"{') and line.endswith('}"'):
            rec = json.loads(json.loads(line))
            for s, v in rec['seen']:
                seen[rec['pid'] - 1][s].add(v)
    m = re.search(r'(\d+) states generated, (\d+) distinct', out)
    print(mod, m.group(0) if m else out[-1500:])
    return seen

rng = random.Random(int(sys.argv[2])); n = int(sys.argv[3])
progs = []
while len(progs) < n:
    nodes = pc.gen_program(rng, 3); src = pc.render(nodes)
    try: compile(src, '<p>', 'exec')
    except SyntaxError: continue
    progs.append((nodes, src))
json.dump([{'nodes': nd} for nd, _ in progs], open('/tmp/proto/pb_progs.json', 'w'))
strict = tlc_seen('PB', len(progs)); lenient = tlc_seen('PBL', len(progs))
stats = collections.Counter(); examples = {}
for i, (nodes, src) in enumerate(progs):
    feats = dl.features(nodes)
    bad = feats & {'brkcnt', 'raise-mid-try', 'deadcode'}
    dom = 'C02dom' if not bad else 'C01only'
    stats['programs ' + dom] += 1
    try: res = dl.analyse(src, nodes)
    except BaseException as e:
        stats['supp-exc ' + type(e).__name__] += 1; continue
    hsites = {nd['s'] for nd in nodes if nd['k'] == 'handler' and nd['s']}
    norm = lambda S: {('exc' if v in hsites else v) for v in S}
    for s, (st, alts, undef) in res.items():
        S = norm(strict[i].get(s, set())); L = norm(lenient[i].get(s, set()))
        if not S: continue
        def note(k):
            stats[k] += 1; examples.setdefault(k, (src, s, S, L, alts, undef, st))
        if any(v != 0 for v in S) and st != 'ok': note('C01 ' + st + ' ' + dom)
        if dom != 'C02dom': continue
        if st == 'ok':
            if not ({v for v in S if v != 0} <= alts): note('C02 missing (strict paths)')
            if not (alts <= {v for v in L if v != 0}): note('C03 phantom (lenient paths)')
            if undef and 0 not in L: note('C03 undef claimed, never unbound (lenient)')
            if (not undef) and 0 in S and S != {0}: note('C03 unbound possible, not flagged (strict)')
        else:
            pass
        if L == {0} and st == 'ok': note('C03 never bound (lenient) but not E02')
for k, v in sorted(stats.items()): print(v, k)
for k, (src, s, S, L, alts, undef, st) in examples.items():
    print('=== example', k, 'site', s, 'strict', S, 'lenient', L, 'supp', alts, 'undef', undef, st); print(src)
