"""Re-runs the minimal input of every finding of FINDINGS.txt on the current tree and prints the outcome.
(F8 kills the interpreter, so it runs in a child process.)"""
import signal, subprocess, sys, time, traceback, os
sys.path.insert(0, '/tmp/seed/c08c')
import logging; logging.disable(logging.CRITICAL)
import warnings; warnings.simplefilter('ignore')
from supp.project import Project
from supp.linter import lint
from supp.assistant import assist, location

LIB = '/tmp/seed/c08c/supp/'
class Timeout(BaseException): pass
def on_alarm(s, f): raise Timeout()
signal.signal(signal.SIGALRM, on_alarm)

def run(label, fn, *args, **kw):
    limit = sys.getrecursionlimit()
    timeout = kw.get('timeout', 20)
    signal.alarm(timeout)
    t = time.time()
    try:
        r = fn(Project(['/nonexistent-c08']), *args)
        out = 'returned %s' % (repr(r)[:90],)
    except BaseException as e:
        fr = [f for f in traceback.extract_tb(e.__traceback__) if f.filename.startswith(LIB)]
        where = '%s:%d %s' % (os.path.basename(fr[-1].filename), fr[-1].lineno, fr[-1].name) if fr else '?'
        out = 'RAISED %s(%s) at %s' % (type(e).__name__, str(e)[:70], where)
        if isinstance(e, Timeout):
            out = 'NO ANSWER within %ds (interrupted at %s)' % (timeout, where)
    finally:
        signal.alarm(0)
        sys.setrecursionlimit(limit)
    print('%-4s %-9s %s   [%.1fs]' % (label, fn.__name__, out, time.time() - t), flush=True)

# F1 nested sequence under a star in an assignment target
for text in ('*[a, b], c = x\n', 'for *[a, b], c in x: pass\n', 'with x as (*[a, b], c): pass\n', '[1 for *[a, b], c in x]\n', '*(a, b), c = 1, 2, 3\n'):
    run('F1', lint, text, None)
run('F1', assist, '*[a, b], c = x\nc.', (2, 2), None)
run('F1', location, '*[a, b], c = x\nc', (2, 1), None)

# F2 KeyError: walrus after a comprehension inside an expression whose region is discarded, in a class body
t = 'class A:\n    try:\n        import json\n    except ImportError if all(x for x in y) else (err := OSError):\n        json = None\nA().'
run('F2', assist, t, (6, 4), None)
run('F2', location, t + 'json', (6, 8), None)
run('F2', assist, 'class A:\n    z = [1 for a in f([x for x in y], g := 1)]\nA.', (3, 2), None)
run('F2', assist, 'class A:\n    class B(f([x for x in y]), (g := 1)): pass\n    if c: pass\nA.', (4, 2), None)

# F3 AttributeError: a function as base class whose result is not a plain class instance
t = "if c: x = 1\nelse: x = 's'\ndef f(): return x\nclass A(f): pass\nA()."
run('F3', assist, t, (5, 4), None)
run('F3', location, t + 'real', (5, 8), None)
run('F3', assist, 'import os.path\ndef f(): return os\nclass A(f): pass\nA().', (4, 4), None)

# F4 RecursionError: evaluation of a chain of definitions
t = "s = ''\n" + "s = s.strip()\n" * 124 + "s."
run('F4', assist, t, (126, 2), None)
run('F4', location, t + 'strip', (126, 7), None)
t = 'a0 = 1\n' + ''.join('a%d = a%d\n' % (i + 1, i) for i in range(248)) + 'a248.'
run('F4', assist, t, (250, 5), None)
t = 'def f0(): return 1\n' + ''.join('def f%d(): return f%d()\n' % (i + 1, i) for i in range(300)) + 'f300().'
run('F4', assist, t, (302, 7), None)
t = 'class C0: pass\n' + ''.join('class C%d(C%d): pass\n' % (i + 1, i) for i in range(600)) + 'C600().'
run('F4', assist, t, (602, 7), None)
t = 'x = [a ' + 'for a in b ' * 164 + ']\nx.'
run('F4', assist, t, (2, 2), None)
L = []
for i in range(5):
    L.append('    ' * i + 'def f%d():' % i)
    L += ['    ' * (i + 1) + 'if a: x%d = 1' % j for j in range(16)]
L.append('    ' * 5 + 'x0.')
run('F4', assist, '\n'.join(L), (len(L), 23), None)

# F5 exponential time in the nesting depth of for loops
for n in (8, 10):
    t = ''.join('    ' * i + 'for x%d in y:\n' % i for i in range(n)) + '    ' * n + 'z = x0\n'
    run('F5', lint, t, None, timeout=20)
    run('F5', location, t + 'z', (n + 2, 1), None, timeout=20)

# F6 negative column
run('F6', location, 'ééééé;a=1;a\n', (1, 10), None)
run('F6', location, '語語語;a=1;a\n', (1, 8), None)

# F7 quadratic prefix regex on a long line
t = 'x = "' + 'a' * 100000 + '"'
run('F7', assist, t, (1, len(t)), None, timeout=20)

# F8 interpreter crash through instantiating a compiled type
code = ("import sys; sys.path.insert(0, '/tmp/seed/c08c'); from supp.project import Project; from supp.assistant import assist;"
        "print(assist(Project(['/nonexistent-c08']), 'import _ssl\\n_ssl._SSLSocket().', (2, 18), None))")
r = subprocess.run([sys.executable, '-c', code], capture_output=True)
print('F8   assist    child process exit status %d (%s)' % (r.returncode, 'killed by SIGSEGV' if r.returncode == -11 else r.stdout[:60]))
