"""C07 - module resolution agrees with Python's import system.

R + M spec  spec/ImportSys.tla (Find = importlib's search; ImplFind = supp's search, pinned and repaired; layouts enumerated
by TLC), spec/ImportCheck.tla (judge).  Every layout is materialised on disk; the real importlib validates Find, the real supp
is compared with it: file identity, ImportError-iff, relative-name resolution, submodule listing.
"""
import json
import os
import random
import shutil
from concurrent.futures import ThreadPoolExecutor

from .. import core


def worker(payload):
    p = core.run_repo_python(['-m', 'vlib.drivers.c07_worker'], inp=json.dumps(payload).encode(), timeout=3000)
    if p.returncode != 0:
        raise core.MachineryFailure('c07 worker failed: %s' % p.stderr.decode(errors='replace')[-2000:])
    return json.loads(p.stdout.decode())


def cfg(nr, fixed, emit):
    return ('SPECIFICATION Spec\nCONSTANTS\n  NR = %d\n  Fixed = %s\nINVARIANT Agreement\n%sCHECK_DEADLOCK FALSE\n' % (
        nr, 'TRUE' if fixed else 'FALSE', 'INVARIANT Emit\n' if emit else ''))


def run(tier, replay=None):
    ck = core.Check('C07', tier)
    seed = core.seed()
    rng = random.Random(seed)
    wd = core.scratch('c07-')
    try:
        thorough = tier == 'thorough'
        if replay:
            data = json.load(open(replay))
            layouts = [[0, data['case']['layout'], data['case']['finds']]]
        else:
            c_fix = os.path.join(wd, 'fix.cfg')
            open(c_fix, 'w').write(cfg(2, True, True))
            c_pin = os.path.join(wd, 'pin.cfg')
            open(c_pin, 'w').write(cfg(2, False, False))
            c_fix3 = os.path.join(wd, 'fix3.cfg')
            open(c_fix3, 'w').write(cfg(3, True, thorough))
            with ThreadPoolExecutor(max_workers=3) as ex:
                f1 = ex.submit(core.tlc, 'ImportSys', c_fix, None, wd)
                f2 = ex.submit(core.tlc, 'ImportSys', c_pin, None, wd)
                f3 = ex.submit(lambda: core.tlc('ImportSys', c_fix3, workdir=wd, timeout=3000, xmx='6g'))
                r_fix, r_pin, r_fix3 = f1.result(), f2.result(), f3.result()
            for r in (r_fix, r_fix3):
                if r.error or r.invariant:
                    raise core.MachineryFailure('ImportSys.tla (repaired search) fails: %s' % (r.error or r.invariant))
            if r_pin.invariant != 'Agreement':
                raise core.MachineryFailure('vacuity guard: the pinned search of ImportSys.tla no longer violates Agreement')
            ck.add_tlc([r_fix, r_pin, r_fix3])
            recs = [r for r in r_fix.records if isinstance(r, dict) and 'layout' in r]
            if len(recs) != 1296:
                raise core.MachineryFailure('ImportSys.tla produced %d layouts' % len(recs))
            if thorough:
                recs3 = [r for r in r_fix3.records if isinstance(r, dict) and 'layout' in r]
                recs += rng.sample(recs3, min(len(recs3), 12000))
            recs.sort(key=lambda r: json.dumps(r, sort_keys=True))
            layouts = [[i, r['layout'], r['finds']] for i, r in enumerate(recs)]
            # materialisation variant (no effect on Find): every third layout gets an __init__.py in one of its source roots
            for i, lay, _f in layouts:
                if i % 3 == 1:
                    lay[i % len(lay)]['rinit'] = True
                    if i % 2 == 0:
                        lay[0]['slash'] = True        # the roots are handed to the project with a trailing slash
                if i % 7 == 5:
                    lay[0]['shadow'] = True           # the first root has a package named like a loaded standard-library package
                if i % 4 == 2:
                    for spec_ in lay:
                        spec_['ext'] = True       # packages named vqa get a compiled-extension child (and files no import can name)
                if i % 5 == 3:
                    lay[(i // 5) % len(lay)]['inpkg'] = True     # that source root lies inside a package directory
        n = core.NCPU
        jobs = [{'layouts': layouts[k::n], 'base': os.path.join(wd, 'fs%d' % k)} for k in range(n)]
        jobs = [j for j in jobs if j['layouts']]
        cases = []
        with ThreadPoolExecutor(max_workers=len(jobs)) as ex:
            for r in ex.map(worker, jobs):
                cases.extend(r)
        for i, c in enumerate(cases):
            c['oid'] = c['id']
            c['id'] = i
        tview = [{'id': c['id'],
                  'lookups': [{k: l[k] for k in ('name', 'spec', 'hasspec', 'ref', 'impl')} for l in c['lookups']],
                  'rels': [{'ref': r['ref'], 'impl': r['impl']} for r in c['rels']],
                  'kids': [{'missing': k['missing'], 'extra': k['extra']} for k in c['kids']]} for c in cases]
        tl, fails = core.tlc_cases('ImportCheck', 'ImportCheck.cfg', tview, 'C07', workdir=wd, timeout=3000)
        ck.add_tlc(tl)
        ck.evaluations = len(cases)
        ck.traces = sum(len(c['lookups']) + len(c['rels']) + len(c['kids']) for c in cases)
        ref = [f for f in fails if f[3] == 'REF']
        if ref:
            c = cases[ref[0][2]]
            bad = [l for l in c['lookups'] if l['hasspec'] and (l['spec']['found'] != l['ref']['found'] or (l['spec']['found'] and l['spec']['root'] != l['ref']['root']))]
            raise core.MachineryFailure('ImportSys.tla Find disagrees with the real importlib: %s on layout %s' % (json.dumps(bad[:2]), json.dumps(c['layout'])))
        byl = {tuple(x[:1]): x for x in layouts}
        seen = set()
        for f in sorted(fails, key=lambda f: json.dumps(cases[f[2]]['layout'])):
            c = cases[f[2]]
            if f[3] in seen and len(ck.violations) >= 6:
                continue
            seen.add(f[3])
            detail = ''
            if f[3] in ('SameFile', 'ImportErrorIff'):
                bad = [l for l in c['lookups'] if l['ref']['found'] != l['impl']['found'] or (l['impl']['found'] and l['ref']['file'] != l['impl']['file'])
                       or (not l['impl']['found'] and l['impl']['exc'] != 'ImportError')]
                detail = json.dumps([[l['name'], {'importlib': l['ref']['file'] or l['ref']['found'], 'supp': l['impl']['file'] or l['impl']['exc'] or l['impl']['found']}] for l in bad[:3]])
            elif f[3] == 'ResolveName':
                detail = json.dumps([r for r in c['rels'] if r['ref'] != r['impl']][:3])
            elif f[3] == 'Children':
                detail = json.dumps([k for k in c['kids'] if k['missing'] or k['extra']][:3])
            sig = {'clause': f[3], 'layout': c['layout'], 'detail': detail[:300]}
            orig = [x for x in layouts if x[0] == c['oid']][0]
            ck.violation(sig, 'clause %s on layout %s: %s' % (f[3], json.dumps(c['layout']), detail[:600]), {'layout': c['layout'], 'finds': orig[2]})
        for c in cases:
            heads = [r for r in c['layout'] if r['a']['k'] != 'absent']
            if len(heads) >= 2:
                ck.nontrivial.add(json.dumps(c['layout'], sort_keys=True))
        ck.extra.update({'layouts': len(cases), 'lookups': sum(len(c['lookups']) for c in cases), 'relative_names': sum(len(c['rels']) for c in cases),
                         'package_listings': sum(len(c['kids']) for c in cases), 'failing_layouts': len({f[2] for f in fails})})
        ck.rule = ('layouts = every layout of ImportSys.tla with 2 ordered roots (head a: absent / module / package with children c, d each absent / module / '
                   'package / package+grandchild; head b: absent / module) = 1296, %s; per layout 10 dotted names of the layout + 10 stdlib / builtin / '
                   'misspelt names, every relative specifier of level 1..depth+1 from every file, listings of every package; non-trivial = the head name '
                   'present in >= 2 roots; distinct by layout' % ('plus a 12000-layout sample of the 3-root space' if thorough else 'all materialised'))
        ck.exhaustive = not replay
        for c in cases[:1] + cases[len(cases) // 2:len(cases) // 2 + 1]:
            ck.sample({'layout': c['layout'], 'lookups': [[l['name'], l['ref']['found'], l['ref']['root'], l['impl']['found'], l['impl']['root']] for l in c['lookups'][:8]],
                       'rels': c['rels'][:3], 'kids': c['kids'][:2]})
        ck.assumptions = ['no namespace directories, no module+package of one name in one directory (property domain)',
                          'builtin / frozen modules compared only when already loaded', 'compiled and stdlib modules compared by existence, project files by path']
        return ck.finish()
    finally:
        shutil.rmtree(wd, ignore_errors=True)
