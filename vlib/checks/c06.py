"""C06 - attribute completion and definition follow Python's lookup order.

R + M spec  spec/Attrs.tla (MRO / Sites / Proposals; supp's table merging, pinned and repaired; hierarchies enumerated by TLC),
spec/AttrsCheck.tla (judge).  Every hierarchy is rendered into one or two project modules, executed under CPython (reference
validation of Attrs.tla) and queried through the real supp via every import form and several expression forms.
"""
import json
import os
import random
import shutil
from concurrent.futures import ThreadPoolExecutor

from .. import core


def worker(payload):
    p = core.run_repo_python(['-m', 'vlib.drivers.c06_worker'], inp=json.dumps(payload).encode(), timeout=3000)
    if p.returncode != 0:
        raise core.MachineryFailure('c06 worker failed: %s' % p.stderr.decode(errors='replace')[-2000:])
    return json.loads(p.stdout.decode())


def cfg(n, fixed, emit):
    return ('SPECIFICATION Spec\nCONSTANTS\n  N = %d\n  Fixed = %s\nINVARIANT LandsRight\nINVARIANT ProposesAll\nINVARIANT ClassLandsRight\n%s'
            'CHECK_DEADLOCK FALSE\n' % (n, 'TRUE' if fixed else 'FALSE', 'INVARIANT Emit\n' if emit else ''))


def run(tier, replay=None):
    ck = core.Check('C06', tier)
    seed = core.seed()
    rng = random.Random(seed)
    wd = core.scratch('c06-')
    try:
        thorough = tier == 'thorough'
        if replay:
            data = json.load(open(replay))
            vectors = [[0, data['case']['vec'], data['case']['variant']]]
        else:
            c_fix = os.path.join(wd, 'fix.cfg')
            open(c_fix, 'w').write(cfg(3, True, True))
            c_pin = os.path.join(wd, 'pin.cfg')
            open(c_pin, 'w').write(cfg(3, False, False))
            with ThreadPoolExecutor(max_workers=2) as ex:
                f1 = ex.submit(lambda: core.tlc('Attrs', c_fix, workdir=wd, timeout=3000, xmx='6g'))
                f2 = ex.submit(core.tlc, 'Attrs', c_pin, None, wd)
                r_fix, r_pin = f1.result(), f2.result()
            if r_fix.error or r_fix.invariant:
                raise core.MachineryFailure('Attrs.tla (repaired tables) fails: %s' % (r_fix.error or r_fix.invariant))
            if r_pin.invariant != 'LandsRight':
                raise core.MachineryFailure('vacuity guard: the pinned tables of Attrs.tla no longer violate LandsRight')
            ck.add_tlc([r_fix, r_pin])
            recs = [r for r in r_fix.records if isinstance(r, dict) and 'h' in r]
            if len(recs) != 32768:
                raise core.MachineryFailure('Attrs.tla produced %d hierarchies' % len(recs))
            recs.sort(key=lambda r: json.dumps(r, sort_keys=True))
            # prefer hierarchies with inheritance and overrides / self-assignments
            rich = [r for r in recs if any(r['h']['bases']) and (sum(len(x) for x in r['h']['own']) + sum(len(x) for x in r['h']['selfs'])) >= 2]
            pick = rng.sample(rich, 20000 if thorough else 900) + rng.sample(recs, 2000 if thorough else 100)
            # deeper / wider hierarchies than the enumeration reaches: sampled, judged by the same operators (AttrsEval.tla)
            deep = []
            for n_cls, count in ((4, 12000 if thorough else 2500), (5, 4000 if thorough else 0)):
                if not count:
                    continue
                cands = []
                for _ in range(count):
                    bases = [[]]
                    for i in range(2, n_cls + 1):
                        k = rng.choice([0, 1, 1, 2, 2, 3]) if i > 2 else rng.choice([0, 1, 1])
                        bases.append(rng.sample(range(1, i), min(k, i - 1)))
                    cands.append({'bases': bases, 'own': [sorted(rng.sample(['p', 'q'], rng.choice([0, 1, 1, 2]))) for _ in range(n_cls)],
                                  'selfs': [sorted(rng.sample(['p', 'r'], rng.choice([0, 0, 1, 2]))) for _ in range(n_cls)]})
                cf = os.path.join(wd, 'cands%d.json' % n_cls)
                json.dump(cands, open(cf, 'w'))
                ec = os.path.join(wd, 'eval%d.cfg' % n_cls)
                open(ec, 'w').write('SPECIFICATION EvalSpec\nCONSTANTS\n  N = %d\n  Fixed = TRUE\nINVARIANT LandsRight\nINVARIANT ProposesAll\n'
                                    'INVARIANT ClassLandsRight\nINVARIANT Emit\nCHECK_DEADLOCK FALSE\n' % n_cls)
                ev = core.tlc('AttrsEval', ec, env={'VERIF_CASES': cf}, workdir=wd, timeout=3000, xmx='6g')
                if ev.error or ev.invariant:
                    raise core.MachineryFailure('AttrsEval.tla (N = %d) fails: %s\n%s' % (n_cls, ev.error or ev.invariant, ev.out[-1500:]))
                ck.add_tlc(ev)
                got = [r for r in ev.records if isinstance(r, dict) and 'h' in r]
                got.sort(key=lambda r: json.dumps(r, sort_keys=True))
                deep += got
            if len(deep) < 100:
                raise core.MachineryFailure('AttrsEval.tla kept %d deep hierarchies' % len(deep))
            ck.extra['deep_hierarchies'] = len(deep)
            pick = pick + deep
            vectors = []
            for i, r in enumerate(pick):
                variant = {'split': rng.choice([0, 0, 1, 2]), 'imp': rng.choice(['from', 'import', 'star', 'fromas']), 'main': rng.choice(['from', 'import', 'star', 'fromas']),
                           'names': rng.choice(['plain', 'plain', 'dunder']), 'cond': rng.random() < 0.25, 'bareann': rng.random() < 0.2}
                vectors.append([i, r, variant])
        n = core.NCPU
        jobs = [{'vectors': vectors[k::n], 'base': os.path.join(wd, 'fs%d' % k)} for k in range(n)]
        jobs = [j for j in jobs if j['vectors']]
        cases = []
        with ThreadPoolExecutor(max_workers=len(jobs)) as ex:
            for r in ex.map(worker, jobs):
                cases.extend(r)
        errs = [c for c in cases if 'error' in c]
        if errs:
            raise core.MachineryFailure('rendered hierarchy does not run under CPython: %s' % json.dumps(errs[0])[:600])
        byid = {v[0]: v for v in vectors}
        for i, c in enumerate(cases):
            c['oid'] = c['id']
            c['id'] = i
        tview = [{'id': c['id'], 'queries': c['queries'], 'props': c['props']} for c in cases]
        tl, fails = core.tlc_cases('AttrsCheck', 'AttrsCheck.cfg', tview, 'C06', workdir=wd, timeout=3000)
        ck.add_tlc(tl)
        ck.evaluations = len(cases)
        ck.traces = sum(len(c['queries']) + len(c['props']) for c in cases)
        ref = [f for f in fails if f[3] == 'REF']
        if ref:
            c = cases[ref[0][2]]
            bad = [q for q in c['queries'] if sorted(map(json.dumps, q['spec'])) != sorted(map(json.dumps, q['ref']))][:2]
            badp = [q for q in c['props'] if sorted(q['spec']) != sorted(q['ref'])][:2]
            raise core.MachineryFailure('Attrs.tla disagrees with CPython: %s %s\n%s' % (json.dumps(bad), json.dumps(badp), json.dumps(c['files'])))
        seen = set()
        for f in sorted(fails, key=lambda f: sum(len(t) for t in cases[f[2]]['files'].values())):
            c = cases[f[2]]
            key = (f[3], json.dumps(c['h'], sort_keys=True))
            if key in seen:
                continue
            seen.add(key)
            if len(seen) > 8:
                break
            if f[3] == 'Lands':
                bad = [q for q in c['queries'] if q['ref'] and (not q['lok'] or not q['land'] or any(l not in q['ref'] for l in q['land']))][:3]
            else:
                bad = [p for p in c['props'] if p['missing']][:3]
            sig = {'clause': f[3], 'files': c['files'], 'detail': bad[:1]}
            ck.violation(sig, 'clause %s: %s for the project %s' % (f[3], json.dumps(bad)[:500], json.dumps(c['files'])[:700]),
                         {'vec': byid[c['oid']][1], 'variant': c['variant'], 'files': c['files'], 'bad': bad})
        for c in cases:
            h = c['h']
            if any(h['bases']) and (any(h['selfs']) or any(set(h['own'][i]) & set(h['own'][b - 1]) for i in range(len(h['bases'])) for b in h['bases'][i])):
                ck.nontrivial.add(json.dumps([h, c['variant']], sort_keys=True))
        ck.extra.update({'hierarchies_model_checked': 32768, 'hierarchies_rendered': len(cases),
                         'definition_queries': sum(len(c['queries']) for c in cases), 'proposal_queries': sum(len(c['props']) for c in cases),
                         'failing_cases': len({f[2] for f in fails})})
        ck.rule = ('hierarchies = all 32768 hierarchies of Attrs.tla with 3 classes (0-2 bases each without repeated ancestors, class-body names '
                   'subset of {p, q}, self-assigned names subset of {p, r}) model-checked; a seeded sample rendered into 1-2 project modules reached '
                   'through from / import / star imports, queried as instance, direct call, class and single-return function; non-trivial = '
                   'inheritance with an override or a self-assignment; distinct by (hierarchy, variant)')
        ck.exhaustive = False
        for c in cases[:2]:
            ck.sample({'files': c['files'], 'variant': c['variant'], 'queries': c['queries'][:4], 'props': c['props'][:2]})
        ck.assumptions = ['no repeated ancestors (property domain): C3 = depth-first preorder, validated against __mro__', 'supp may propose more than Python has (inclusion clause)']
        return ck.finish()
    finally:
        shutil.rmtree(wd, ignore_errors=True)
