"""C02 - see pybind_common.py (engine shared by C01, C02, C03)."""
from .pybind_common import run_property


def run(tier, replay=None):
    return run_property('C02', tier, replay)
