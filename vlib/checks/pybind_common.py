"""Shared engine of C01, C02, C03 (and C17's source-order clause): programs -> CPython executions,
supp observations -> TLC (PyBindEnum: two-way reference validation; PyBindCheck: the clauses)."""
import json
import os
import random
import shutil
from concurrent.futures import ThreadPoolExecutor

from .. import core

TLC_FIELDS = ('id', 'nodes', 'flavour', 'env0', 'locals', 'nbody', 'c01', 'c02', 'c03', 'c17', 'rd', 'unused')


def gen_cases(seed, n, mix=None, nworkers=None, exec_limit=1500):
    nworkers = nworkers or core.NCPU
    per = n // nworkers + 1
    jobs = [{'seed': seed * 7919 + i, 'n': per, 'base': i * 100000, 'mix': mix or {}, 'exec_limit': exec_limit} for i in range(nworkers)]

    def one(job):
        p = core.run_repo_python(['-m', 'vlib.drivers.pybind_worker'], inp=json.dumps(job).encode(), timeout=3000)
        if p.returncode != 0:
            raise core.MachineryFailure('pybind worker failed: %s' % p.stderr.decode(errors='replace')[-2500:])
        return json.loads(p.stdout.decode())
    out = []
    with ThreadPoolExecutor(max_workers=nworkers) as ex:
        for r in ex.map(one, jobs):
            out.extend(r)
    return out


def tlc_view(case):
    c = {k: case[k] for k in TLC_FIELDS if k in case}
    # TLC needs homogeneous read records
    c['rd'] = [{k: o[k] for k in ('id', 'vis', 'e02', 'e42', 'assist', 'undef', 'alts', 'loc', 'locok', 'nolocal')} for o in case['rd']]
    return c


def conformance(cases, wd):
    """two-way: the executions TLC enumerates for PyBind = the executions of CPython (decision DFS)"""
    view = [{k: c[k] for k in ('id', 'nodes', 'flavour', 'env0', 'locals')} for c in cases]
    n = min(core.NCPU, max(1, len(view) // 10))
    chunks = [view[i::n] for i in range(n)]

    def one(ic):
        i, chunk = ic
        f = os.path.join(wd, 'enum-%d.json' % i)
        with open(f, 'w') as fd:
            json.dump(chunk, fd)
        r = core.tlc('PyBindEnum', 'PyBindEnum.cfg', env={'VERIF_CASES': f}, workdir=wd, timeout=3000)
        if r.error or r.invariant:
            raise core.MachineryFailure('PyBindEnum failed: %s\n%s' % (r.error or r.invariant, r.out[-2000:]))
        return r
    with ThreadPoolExecutor(max_workers=n) as ex:
        results = list(ex.map(one, enumerate(chunks)))
    tla = {}
    for r in results:
        for rec in r.records:
            if isinstance(rec, dict) and 'dec' in rec:
                tla.setdefault(rec['pid'], []).append(rec)
    mism = []
    nexec = 0
    for c in cases:
        hs = set(c['handler_sites'])
        t = {}
        for rec in tla.get(c['id'], []):
            obs = [[a, ('exc' if b in hs else 'other' if b == -1 else b)] for a, b in rec['obs']]
            t[tuple(rec['dec'])] = (obs, 'exc' if rec['pend'] == 'exc' else 'none')
        cp = {tuple(d): (o, oc) for d, o, oc in c['cpython']}
        nexec += len(cp)
        if set(t) != set(cp):
            mism.append((c['id'], 'decision sequences differ', sorted(set(t) ^ set(cp))[:3]))
            continue
        for d in cp:
            o1, oc1 = cp[d]
            o2, oc2 = t[d]
            ok = oc1 == oc2 and len(o1) == len(o2)
            if ok:
                for (ra, va), (rb, vb) in zip(o1, o2):
                    if ra != rb:
                        ok = False
                    elif isinstance(va, list) and va and va[0] == 'any':
                        ok = ok and vb in va[1]
                    elif va != vb:
                        ok = False
            if not ok:
                mism.append((c['id'], 'observations differ for decisions %s' % (list(d),), [o1, o2, oc1, oc2]))
                break
    return results, mism, nexec


def judge(cases, wd):
    view = [tlc_view(c) for c in cases]
    n = min(core.NCPU, max(1, len(view) // 8))
    chunks = [view[i::n] for i in range(n)]

    def one(ic):
        i, chunk = ic
        f = os.path.join(wd, 'chk-%d.json' % i)
        with open(f, 'w') as fd:
            json.dump(chunk, fd)
        r = core.tlc('PyBindCheck', 'PyBindCheck.cfg', env={'VERIF_CASES': f}, workdir=wd, timeout=3000)
        if r.error:
            raise core.MachineryFailure('PyBindCheck failed: %s\n%s' % (r.error, r.out[-2500:]))
        if not r.tagged('VDONE'):
            raise core.MachineryFailure('PyBindCheck: no VDONE\n%s' % r.out[-2500:])
        return r
    with ThreadPoolExecutor(max_workers=n) as ex:
        results = list(ex.map(one, enumerate(chunks)))
    fails = []
    seen = {}
    for r in results:
        fails.extend(r.tagged('VFAIL'))
        for s in r.tagged('SEEN'):
            for e in s[1]:
                seen[e['id']] = e
    return results, fails, seen


def run_property(prop, tier, replay=None, extra_props=()):
    """prop in C01/C02/C03: generate, validate the reference, judge, report the clause failures of `prop`"""
    ck = core.Check(prop, tier)
    seed = core.seed()
    wd = core.scratch('pyb-')
    try:
        thorough = tier == 'thorough'
        if replay and json.load(open(replay))['case'].get('multiscope'):
            from . import mscope_common
            mscope_common.run_into(ck, tier, wd, replay_case=json.load(open(replay))['case'], prop=prop)
            ck.rule = 'replay of one multi-scope program (PyScope.tla)'
            return ck.finish()
        if replay:
            data = json.load(open(replay))
            case = data['case']
            cases = [case]
        else:
            n = 6000 if thorough else 480
            mix = {'c03': 0.7 if prop == 'C03' else 0.5 if prop == 'C02' else 0.3}
            cases = gen_cases(seed, n, mix=mix)
        if not replay:
            sample = cases if thorough else cases[::3]
            enum_res, mism, nexec = conformance(sample, wd)
            if mism:
                src = [c.get('source', '') for c in sample if c['id'] == mism[0][0]]
                raise core.MachineryFailure('reference semantics PyBind.tla disagrees with CPython on program %s: %s %s\n%s' % (
                    mism[0][0], mism[0][1], json.dumps(mism[0][2])[:600], (src or [''])[0]))
            ck.add_tlc(enum_res)
            ck.extra['cpython_executions_matched_two_way'] = nexec
            ck.extra['programs_in_reference_validation'] = len(sample)
        res, fails, seen = judge(cases, wd)
        ck.add_tlc(res)
        ck.traces = sum(len(c['rd']) for c in cases)
        ck.evaluations = len(cases)
        byid = {c['id']: c for c in cases}
        mine = [f for f in fails if f[1] == prop]
        others = {}
        for f in fails:
            if f[1] != prop:
                others[f[1]] = others.get(f[1], 0) + 1
        ck.extra['clause_failures_of_other_properties_in_this_run'] = others
        reported = set()
        for f in sorted(mine, key=lambda f: (len(byid[f[2]]['source']), f[2])):
            c = byid[f[2]]
            rid = f[4][0]
            pos = c['read_pos'].get(str(rid)) if rid else None
            sig = {'clause': f[3], 'source': c['source'], 'read': pos}
            key = (f[3], f[2])
            if key in reported:
                continue
            reported.add(key)
            if len(reported) > 10:
                break
            ck.violation(sig, '%s clause %s: read %s at %s of a generated %s body: %s' % (
                prop, f[3], rid, pos, c['flavour'], json.dumps(f[4][1])[:300]),
                {k: c[k] for k in c if k != 'cpython'})
        ck.extra['failing_programs'] = len({f[2] for f in mine})
        for c in cases:
            s = seen.get(c['id'])
            ndec = max((len(e[0]) for e in c.get('cpython', [])), default=0)
            multi = False
            if s:
                per = {}
                for rid, v in s['s']:
                    per.setdefault(rid, set()).add(v)
                multi = any(len(v) >= 2 for v in per.values())
            if ndec >= 1 and multi:
                ck.nontrivial.add(json.dumps(c['nodes'], sort_keys=True))
        ck.rule = ('seeded random one-body programs (function, module and class bodies; assignment forms, if/elif/else, while/for with '
                   'else, try/except/else/finally with reads in the clauses\' type expressions, with, walrus, conditional expressions, decorated def / '
                   'class statements, raise/return/break/continue; %s) with ALL executions explored by TLC '
                   '(every branch outcome, 0..2 trips, every raise choice; strict and lenient); reference semantics validated two-way '
                   'against CPython on %s; non-trivial = at least one decision point and a read whose value set has >= 2 elements; '
                   'distinct by abstract tree' % ('canonical C03 fragment for %d%%' % int(100 * (0.7 if prop == 'C03' else 0.5 if prop == 'C02' else 0.3)),
                                                  'every program' if thorough else 'every third program'))
        ck.exhaustive = False
        if prop in ('C01', 'C02') and not replay:
            # beyond one body: nested functions, lambdas, classes, comprehensions, closures, global / nonlocal, calls
            # (C02: the reads whose binding is in the read's own body)
            from . import mscope_common
            mscope_common.run_into(ck, tier, wd, prop=prop)
            ck.rule += ('; PLUS seeded random MULTI-SCOPE programs (nested def with every parameter kind, defaults / decorators / annotations, '
                        'lambda, class with bases / keywords, comprehensions with walrus and lambdas inside, closures, global, nonlocal, import / from-import / '
                        'star-import of project modules (plain, byte-order mark, coding cookie) and of standard-library modules, calls, if / for) with all executions '
                        'explored by TLC on PyScope.tla (frames, cells, LOAD_NAME fallback of class bodies), validated two-way against CPython '
                        'on every program')
        for c in cases[:2]:
            ck.sample({'source': c['source'], 'flavour': c['flavour'], 'c02': c['c02'], 'c03': c['c03'],
                       'reads': [[o['id'], o['vis'], o['undef'], o['alts']] for o in c['rd']][:12],
                       'executions': len(c.get('cpython', []))})
        ck.assumptions = ['helper names (_vo, _vE, _vEB, _vprog) are injected as builtins at run time and ignored in supp\'s diagnostics',
                          'loops are bounded at two trips (sufficient for reaching definitions)',
                          'C02/C03 clauses only on programs generated inside the respective fragment',
                          'a statement never reads, in its own targets or annotations, a name that the same statement binds (evaluation order inside '
                          'one statement is decided by source position in supp)']
        return ck.finish()
    finally:
        shutil.rmtree(wd, ignore_errors=True)
