"""C12 - completion contract: exact prefix, clean sorted proposals, transparent cursor.

Spec  spec/Completion.tla (cursor contexts enumerated by TLC; reference definitions Prefix / Sorted / Identifier / Marker)
      spec/CompletionCheck.tla (judge of real assist() calls)
"""
import glob
import json
import os
import random
import shutil
import sysconfig
from concurrent.futures import ThreadPoolExecutor

from .. import core


def worker(payload):
    p = core.run_repo_python(['-m', 'vlib.drivers.c12_worker'], inp=json.dumps(payload).encode(), timeout=3000)
    if p.returncode != 0:
        raise core.MachineryFailure('c12 worker failed: %s' % p.stderr.decode(errors='replace')[-2000:])
    return json.loads(p.stdout.decode())


def run(tier, replay=None):
    ck = core.Check('C12', tier)
    seed = core.seed()
    rng = random.Random(seed)
    wd = core.scratch('c12-')
    try:
        thorough = tier == 'thorough'
        gen = core.tlc('Completion', 'CompletionGen.cfg', workdir=wd)
        if gen.error:
            raise core.MachineryFailure('CompletionGen failed: %s' % gen.error)
        ck.add_tlc(gen)
        ctxs = sorted([r for r in gen.records if isinstance(r, dict) and 'pre' in r], key=lambda v: json.dumps(v, sort_keys=True))
        if len(ctxs) != 16200:
            raise core.MachineryFailure('CompletionGen produced %d contexts' % len(ctxs))
        files = sorted(glob.glob(os.path.join(core.REPO, 'supp', '*.py')) + glob.glob(os.path.join(core.REPO, 'tests', '*.py')))
        stdlib = sysconfig.get_paths()['stdlib']
        std = sorted(glob.glob(os.path.join(stdlib, '*.py')))
        files += rng.sample(std, 120 if thorough else 10)
        n = core.NCPU
        jobs = []
        for k in range(n):
            jobs.append({'contexts': [[i, c] for i, c in enumerate(ctxs)][k::n],
                         'files': [[100 + i, f, 40 if thorough else 12, rng.randrange(1 << 30)] for i, f in enumerate(files)][k::n]})
        cases = []
        with ThreadPoolExecutor(max_workers=n) as ex:
            for r in ex.map(worker, jobs):
                cases.extend(r)
        for i, c in enumerate(cases):
            c['oid'] = c['id']
            c['id'] = i
        tview = [{k: c[k] for k in ('id', 'left', 'prefix', 'proposals', 'kind', 'transparent', 'expected')} for c in cases]
        tl, fails = core.tlc_cases('CompletionCheck', 'CompletionCheck.cfg', tview, 'C12', workdir=wd, timeout=3000)
        ck.add_tlc(tl)
        ck.traces = ck.evaluations = len(cases)
        seen = set()
        for f in fails:
            c = cases[f[2]]
            m = c['meta']
            key = (f[3], json.dumps({k: m['cx'][k] for k in ('pre', 'ctx')}) if 'cx' in m else (m['file'], c['kind']))
            if key in seen:
                continue
            seen.add(key)
            if len(seen) > 12:
                break
            txt = lambda cs: ''.join(chr(x) for x in cs)
            sig = {'clause': f[3], 'where': m.get('source') or [m.get('file'), m.get('pos')], 'pos': m.get('pos')}
            extra = ''
            if f[3] == 'Transparent':
                a, b = {txt(p) for p in c['proposals']}, {txt(p) for p in c['expected']}
                extra = ' only in proposals: %s; only in unmarked analysis: %s' % (sorted(a - b)[:6], sorted(b - a)[:6])
            if f[3] == 'NoMarker':
                extra = ' ' + str([txt(p) for p in c['proposals'] if '__supp_mark__' in txt(p)][:3])
            ck.violation(sig, 'clause %s at %s: left of cursor %r, prefix %r, %d proposals.%s' % (
                f[3], m.get('pos'), txt(c['left']), txt(c['prefix']), len(c['proposals']), extra), {'meta': m, 'kind': c['kind'],
                'prefix': txt(c['prefix']), 'proposals': [txt(p) for p in c['proposals']][:50]})
        for c in cases:
            m = c['meta']
            if 'cx' in m and m['cx']['pre'] not in ('space', 'dot', 'lparen'):
                ck.nontrivial.add(json.dumps(m['cx'], sort_keys=True))
            elif 'file' in m and c['transparent']:
                ck.nontrivial.add((m['file'], tuple(m['pos'])))
        ck.extra.update({'contexts_enumerated': len(ctxs), 'contexts_instantiated': len([c for c in cases if 'cx' in c['meta']]),
                         'real_file_calls': len([c for c in cases if 'file' in c['meta']]),
                         'transparency_checked': len([c for c in cases if c['transparent']]), 'failing_calls': len({f[2] for f in fails})})
        ck.rule = ('cursor contexts = every (preceding class x run length 0..3 x alphabet (ASCII, underscore+digits, non-ASCII letters) x following class x syntactic context) of Completion.tla for which a '
                   'template parses with the mark; plus cursors at the end of and inside name reads and attribute accesses (loads and stores) of real '
                   'files; non-trivial = a context whose preceding class is not space/dot/"(", or a real-file call with the transparency clause; '
                   'distinct by context / (file, position)')
        ck.exhaustive = False
        for c in cases[:2] + cases[-1:]:
            ck.sample({'meta': c['meta'] if 'cx' not in c['meta'] else {'cx': c['meta']['cx'], 'pos': c['meta']['pos'], 'line': c['meta']['source'].split('\n')[-2]},
                       'prefix': ''.join(chr(x) for x in c['prefix']), 'nproposals': len(c['proposals']), 'transparent': c['transparent']})
        ck.assumptions = ['ASCII text left of the cursor', 'calls where the marked text does not parse (SyntaxError) are skipped: C08']
        return ck.finish()
    finally:
        shutil.rmtree(wd, ignore_errors=True)
