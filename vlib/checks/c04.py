"""C04 - answers do not depend on which positions were queried before.

R-spec  spec/History.tla (query orders enumerated by TLC) + spec/HistoryCheck.tla (trace judge)
Each order is replayed on ONE analysis object of the real code (Flow.names_at on the read sites, the internal entry
point lint / assist / location / evaluate all go through); every site is also asked of a fresh analysis that has
answered nothing else.  Whole-file lint (forward order) and lint/assist sequences on one Project are histories too.
"""
import glob
import json
import os
import random
import shutil
from concurrent.futures import ThreadPoolExecutor

from .. import core
from . import pybind_common
from ..gen import scopes


def run_workers(jobs):
    n = core.NCPU
    chunks = [jobs[i::n] for i in range(n)]
    chunks = [c for c in chunks if c]

    def one(chunk):
        p = core.run_repo_python(['-m', 'vlib.drivers.c04_worker'], inp=json.dumps({'jobs': chunk}).encode(), timeout=3000)
        if p.returncode != 0:
            raise core.MachineryFailure('c04 worker failed: %s' % p.stderr.decode(errors='replace')[-2000:])
        return json.loads(p.stdout.decode())
    out = []
    with ThreadPoolExecutor(max_workers=len(chunks)) as ex:
        for r in ex.map(one, chunks):
            out.extend(r)
    return out


def big_orders(n, rng, k):
    fwd = list(range(1, n + 1))
    inside_out = []
    lo, hi = (n + 1) // 2, (n + 1) // 2 + 1
    while lo >= 1 or hi <= n:
        if lo >= 1:
            inside_out.append(lo)
            lo -= 1
        if hi <= n:
            inside_out.append(hi)
            hi += 1
    orders = [fwd, fwd[::-1], inside_out, inside_out[::-1]]
    for _ in range(k):
        o = fwd[:]
        rng.shuffle(o)
        orders.append(o)
        orders.append(o + o[: n // 2])      # with repetitions
    return orders


def real_file_sites(path, rng, limit):
    import ast
    src = open(path).read()
    try:
        tree = ast.parse(src)
    except SyntaxError:
        return None
    names = [(n.lineno, n.col_offset, n.id) for n in ast.walk(tree) if isinstance(n, ast.Name) and isinstance(n.ctx, ast.Load)]
    names.sort()
    if len(names) > limit:
        start = rng.randrange(len(names) - limit)
        names = names[start:start + limit]
    return src, [list(x) for x in names]


def run(tier, replay=None):
    ck = core.Check('C04', tier)
    seed = core.seed()
    rng = random.Random(seed)
    wd = core.scratch('c04-')
    try:
        thorough = tier == 'thorough'
        if replay:
            data = json.load(open(replay))
            jobs = [dict(data['case']['job'], id=0)]
            small = {}
        else:
            gen = core.tlc('History', 'HistoryGen.cfg', workdir=wd)
            if gen.error:
                raise core.MachineryFailure('HistoryGen failed: %s' % gen.error)
            ck.add_tlc(gen)
            small = {}
            for r in gen.records:
                if isinstance(r, dict) and 'order' in r:
                    small.setdefault(r['n'], []).append(r['order'])
            if sum(len(v) for v in small.values()) < 1000:
                raise core.MachineryFailure('HistoryGen produced too few orders')
            progs = pybind_common.gen_cases(seed, 2500 if thorough else 180, mix={'c03': 0.2}, exec_limit=30)
            jobs = []
            for c in progs:
                sites = [list(c['read_pos'][k]) for k in sorted(c['read_pos'], key=int)]
                # loops make the memo interesting: prefer sites of programs with loops, but keep all
                n = len(sites)
                if n == 0:
                    continue
                if n <= 5:
                    orders = small[n] if thorough else rng.sample(small[n], min(len(small[n]), 120))
                else:
                    # all permutations of a window of <= 5 sites embedded in the module, plus the large orders
                    win = sorted(rng.sample(range(1, n + 1), 5))
                    perms = rng.sample(small[5], 40 if not thorough else 200)
                    orders = [[win[i - 1] for i in p] for p in perms] + big_orders(n, rng, 6 if not thorough else 20)
                jobs.append({'id': len(jobs), 'source': c['source'], 'filename': '/nonexistent-verif-root/p%d.py' % c['id'],
                             'sites': sites, 'orders': orders, 'kind': 'generated'})
            # multi-scope modules: nested functions, sibling closures, lambdas, classes, comprehensions, global / nonlocal
            import ast
            for mi, src in enumerate(scopes.gen_modules(seed * 31 + 5, 1500 if thorough else 90)):
                sites = sorted((n.lineno, n.col_offset, n.id) for n in ast.walk(ast.parse(src)) if isinstance(n, ast.Name) and isinstance(n.ctx, ast.Load))
                sites = [list(x) for x in sites if x[2] != 'use']
                n = len(sites)
                if n < 2:
                    continue
                if n <= 5:
                    orders = rng.sample(small[n], min(len(small[n]), 60))
                else:
                    win = sorted(rng.sample(range(1, n + 1), 5))
                    orders = [[win[i - 1] for i in p_] for p_ in rng.sample(small[5], 30)] + big_orders(n, rng, 5)
                    # repeated identical requests: every site twice in a row, and the whole module twice
                    orders.append([i for i in range(1, n + 1) for _ in (0, 1)])
                jobs.append({'id': len(jobs), 'source': src, 'filename': '/nonexistent-verif-root/s%d.py' % mi, 'sites': sites,
                             'orders': orders, 'kind': 'scopes'})
            files = sorted(glob.glob(os.path.join(core.REPO, 'supp', '*.py')) + glob.glob(os.path.join(core.REPO, 'tests', '*.py')))
            import sysconfig
            std = sorted(glob.glob(os.path.join(sysconfig.get_paths()['stdlib'], '*.py')))
            files += rng.sample(std, 60 if thorough else 8)
            for f in files:
                r = real_file_sites(f, rng, 60 if not thorough else 150)
                if not r or not r[1]:
                    continue
                jobs.append({'id': len(jobs), 'source': r[0], 'filename': f, 'sites': r[1],
                             'orders': big_orders(len(r[1]), rng, 3 if not thorough else 8), 'kind': 'file'})
        results = run_workers(jobs)
        byid = {r['id']: r for r in results}
        cases = []
        meta = {}
        for j in jobs:
            r = byid[j['id']]
            for oi, h in enumerate(r['hists']):
                cid = len(cases)
                cases.append({'id': cid, 'fresh': r['fresh'], 'hist': h})
                meta[cid] = (j, 'order', j['orders'][oi])
                ck.evaluations += 1
                if len(set(j['orders'][oi])) >= 2:
                    ck.nontrivial.add((j['id'], tuple(j['orders'][oi])))
            # whole-file lint: expected = fresh visibility
            if r['lint']:
                cid = len(cases)
                cases.append({'id': cid, 'fresh': [x[2] for x in r['lint']], 'hist': [[x[0], x[1]] for x in r['lint']]})
                meta[cid] = (j, 'lint', None)
                ck.evaluations += 1
            if r['api']:
                cid = len(cases)
                cases.append({'id': cid, 'fresh': [x[2] for x in r['api']], 'hist': [[i + 1, x[1]] for i, x in enumerate(r['api'])]})
                meta[cid] = (j, 'api', [x[0] for x in r['api']])
                ck.evaluations += 1
        tl, fails = core.tlc_cases('HistoryCheck', 'HistoryCheck.cfg', cases, 'C04', workdir=wd, timeout=3000)
        ck.add_tlc(tl)
        ck.traces = sum(len(c['hist']) for c in cases)
        seen = set()
        for f in sorted(fails, key=lambda f: (len(meta[f[2]][0]['source']), f[2])):
            j, kind, order = meta[f[2]]
            if (j['id'], kind) in seen:
                continue
            seen.add((j['id'], kind))
            if len(seen) > 8:
                break
            l, site = f[4]
            c = cases[f[2]]
            sig = {'source': j['source'], 'kind': kind, 'order': (order[:l] if order else None)}
            ck.violation(sig, 'query %d of the %s history (site %s at %s) answered %s, a fresh analysis answers %s; queries before: %s' % (
                l, kind, site, j['sites'][site - 1] if kind != 'api' else '-', c['hist'][l - 1][1][:200], c['fresh'][site - 1][:200],
                (order[:l - 1] if order else kind)),
                {'job': {'source': j['source'], 'filename': j['filename'], 'sites': j['sites'], 'orders': [order] if order else []}})
        ck.extra['failing_histories'] = len({f[2] for f in fails})
        ck.extra['queries'] = ck.traces
        ck.rule = ('histories = query orders over the read sites of generated programs (TLC-enumerated: every permutation of <= 5 sites and '
                   'every sequence with repetition of length <= 4; for larger modules permutations of a 5-site window plus forward / reverse / '
                   'inside-out / random orders with repetitions), whole-file lint, lint/assist sequences on one Project, and the same large '
                   'orders over real files of the repository and the standard library; non-trivial = at least two distinct sites; distinct by (module, order)')
        ck.exhaustive = False
        for j in jobs[:1] + jobs[-1:]:
            ck.sample({'file': j['filename'], 'sites': j['sites'][:6], 'orders': j['orders'][:3], 'fresh': byid[j['id']]['fresh'][:3]})
        ck.assumptions = ['queries are made through Flow.names_at on one analysis object (the entry point every API function uses)']
        return ck.finish()
    finally:
        shutil.rmtree(wd, ignore_errors=True)
