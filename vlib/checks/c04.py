"""C04 - answers do not depend on which positions were queried before.

M-spec  spec/Memo.tla (the region tables and their memoisation; region graphs of real analysis objects, every query
        order explored by TLC; the variant without the context test must fail; fresh tables compared with the code)
R-spec  spec/History.tla (query orders enumerated by TLC) + spec/HistoryCheck.tla (trace judge)
Each order is replayed on ONE analysis object of the real code (Flow.names_at on the read sites, the internal entry
point lint / assist / location / evaluate all go through); every site is also asked of a fresh analysis that has
answered nothing else.  Whole-file lint (forward order) and lint/assist sequences on one Project are histories too.
"""
import glob
import json
import os
import random
import shutil
from concurrent.futures import ThreadPoolExecutor

from .. import core
from .. import astpos
from . import pybind_common
from ..gen import scopes


def run_workers(jobs):
    n = core.NCPU
    chunks = [jobs[i::n] for i in range(n)]
    chunks = [c for c in chunks if c]

    def one(chunk):
        p = core.run_repo_python(['-m', 'vlib.drivers.c04_worker'], inp=json.dumps({'jobs': chunk}).encode(), timeout=3000)
        if p.returncode != 0:
            raise core.MachineryFailure('c04 worker failed: %s' % p.stderr.decode(errors='replace')[-2000:])
        return json.loads(p.stdout.decode())
    out = []
    with ThreadPoolExecutor(max_workers=len(chunks)) as ex:
        for r in ex.map(one, chunks):
            out.extend(r)
    return out


def big_orders(n, rng, k):
    fwd = list(range(1, n + 1))
    inside_out = []
    lo, hi = (n + 1) // 2, (n + 1) // 2 + 1
    while lo >= 1 or hi <= n:
        if lo >= 1:
            inside_out.append(lo)
            lo -= 1
        if hi <= n:
            inside_out.append(hi)
            hi += 1
    orders = [fwd, fwd[::-1], inside_out, inside_out[::-1]]
    for _ in range(k):
        o = fwd[:]
        rng.shuffle(o)
        orders.append(o)
        orders.append(o + o[: n // 2])      # with repetitions
    return orders


def real_file_sites(path, rng, limit):
    import ast
    src = open(path).read()
    try:
        tree = astpos.parse(src)
    except SyntaxError:
        return None
    names = [(n.lineno, n.col_offset, n.id) for n in ast.walk(tree) if isinstance(n, ast.Name) and isinstance(n.ctx, ast.Load)]
    names.sort()
    if len(names) > limit:
        start = rng.randrange(len(names) - limit)
        names = names[start:start + limit]
    return src, [list(x) for x in names]


LOOPY = [
    'for i in xs:\n    if i:\n        print(a)\n    a = 1\n',
    'def f(xs):\n    for i in xs:\n        for j in i:\n            if j:\n                print(a, b)\n            b = 2\n        a = 1\n    return a\n',
    'a = 0\nwhile a:\n    if a:\n        b = a\n    else:\n        a = b\n    for a in b:\n        c = a\nprint(a, b, c)\n',
    'def f(xs):\n    while xs:\n        def g():\n            return a\n        a = 1\n    return g\n',
    'for a in b:\n    for b in a:\n        pass\n    else:\n        a = 2\nelse:\n    b = 1\nprint(a, b)\n',
    'def f(c):\n    while c:\n        try:\n            a = c\n        finally:\n            for b in a:\n                c = b\n    return a, b, c\n',
]


def memo_level(ck, jobs, wd, thorough, rng):
    """mechanism level (spec/Memo.tla): the region graphs of real analysis objects, every query order explored by TLC"""
    texts = [[i, s] for i, s in enumerate(LOOPY)]
    pick = [j for j in jobs if 'for ' in j['source'] or 'while ' in j['source']]
    rng.shuffle(pick)
    for j in pick[:(1200 if thorough else 150)]:
        texts.append([len(texts), j['source']])
    n = core.NCPU
    chunks = [c for c in (texts[i::n] for i in range(n)) if c]

    def extract(chunk):
        p = core.run_repo_python(['-m', 'vlib.drivers.memo_worker'], inp=json.dumps({'texts': chunk, 'names': ['a', 'b', 'c', 'd', 'x', 'y'], 'max_regions': 14 if thorough else 12}).encode(), timeout=3000)
        if p.returncode != 0:
            raise core.MachineryFailure('memo worker failed: %s' % p.stderr.decode(errors='replace')[-2000:])
        return json.loads(p.stdout.decode())
    graphs = []
    with ThreadPoolExecutor(max_workers=len(chunks)) as ex:
        for r in ex.map(extract, chunks):
            graphs.extend(r)
    # distinct graphs only
    seen, uniq = set(), []
    for g in graphs:
        k = json.dumps(g['regions'], sort_keys=True)
        if k not in seen:
            seen.add(k)
            uniq.append(g)
    uniq.sort(key=lambda g: json.dumps(g['regions'], sort_keys=True))
    if not thorough:
        uniq = uniq[:6] + rng.sample(uniq[6:], min(len(uniq) - 6, 250)) if len(uniq) > 6 else uniq
    for i, g in enumerate(uniq):
        g['id'] = i
    if len(uniq) < 20:
        raise core.MachineryFailure('only %d region graphs with a loop and a binding were extracted' % len(uniq))
    cfg_t = os.path.join(wd, 'memo_t.cfg')
    cfg_f = os.path.join(wd, 'memo_f.cfg')
    open(cfg_t, 'w').write('SPECIFICATION MSpec\nCONSTANT Contextual = TRUE\nINVARIANT HistoryIndependent\nINVARIANT EmitFresh\nCHECK_DEADLOCK FALSE\n')
    open(cfg_f, 'w').write('SPECIFICATION MSpec\nCONSTANT Contextual = FALSE\nINVARIANT HistoryIndependent\nCHECK_DEADLOCK FALSE\n')
    shards = [c for c in (uniq[i::n] for i in range(n)) if c]

    def model(ic):
        i, chunk = ic
        f = os.path.join(wd, 'memo-%d.json' % i)
        json.dump([{'id': g['id'], 'regions': g['regions']} for g in chunk], open(f, 'w'))
        return core.tlc('Memo', cfg_t, env={'VERIF_CASES': f}, workdir=wd, timeout=3000)
    with ThreadPoolExecutor(max_workers=len(shards) + 1) as ex:
        fguard = ex.submit(lambda: core.tlc('Memo', cfg_f, env={'VERIF_CASES': write_json(os.path.join(wd, 'memo-g.json'),
                                                                                              [{'id': g['id'], 'regions': g['regions']} for g in uniq[:40]])},
                                            workdir=wd, timeout=3000))
        results = list(ex.map(model, enumerate(shards)))
        guard = fguard.result()
    if guard.invariant != 'HistoryIndependent':
        raise core.MachineryFailure('vacuity guard: Memo.tla without the context test no longer violates HistoryIndependent')
    byid = {g['id']: g for g in uniq}
    drift = 0
    sample = None
    nfresh = 0
    for r in results:
        if r.error:
            raise core.MachineryFailure('Memo.tla failed: %s\n%s' % (r.error, r.out[-1500:]))
        if r.invariant:
            # the model of the repaired mechanism is order dependent on a real region graph: a design-level defect of the memo
            raise core.MachineryFailure('Memo.tla (Contextual = TRUE) violates %s on a real region graph\n%s' % (r.invariant, r.out[-3000:]))
        for rec in r.records:
            if isinstance(rec, dict) and 'fresh' in rec:
                g = byid[rec['gid']]
                for i, row in enumerate(rec['fresh']):
                    nfresh += 1
                    if sorted(row['n']) != g['real'][i][0] or sorted(row['p']) != g['real'][i][1]:
                        drift += 1
                        if sample is None:
                            sample = {'source': g['source'], 'name': g['name'], 'region': i + 1, 'model': row, 'real': g['real'][i]}
    ck.add_tlc(results + [guard])
    ck.drift += drift
    ck.extra['memo_region_graphs'] = len(uniq)
    ck.extra['memo_fresh_tables_compared'] = nfresh
    if sample:
        ck.extra['memo_drift_sample'] = sample


def write_json(path, obj):
    with open(path, 'w') as fd:
        json.dump(obj, fd)
    return path


_PKG = {'p/__init__.py': '', 'p/b.py': 'y = 1\nclass B(object):\n    by = 2\n', 'p/sub/__init__.py': '', 'p/sub/a.py': 'x = 1\nclass A(object):\n    ax = 2\n',
        'p/sub/deep/__init__.py': '', 'p/sub/deep/c.py': 'z = 3\n'}
_TXT = 'from . import a\nfrom .. import b\nfrom .deep import c\nfrom ... import p as top\na.x\nb.y\nc.z\na.A.ax\nb.B.by\n'
API_PAIRS = [{'files': _PKG, 'main': 'p/sub/main.py', 'text': _TXT, 'first': [op1, p1], 'second': [op2, p2]}
             for op1, p1 in (('location', [5, 2]), ('location', [6, 2]), ('assist', [7, 2]), ('assist', [8, 5]))
             for op2, p2 in (('location', [5, 2]), ('location', [6, 2]), ('location', [7, 2]), ('assist', [9, 5]))
             if (op1, p1) != (op2, p2)]

PINNED_SCRIPT = r'''
import json, os, shutil, sys, tempfile, logging
logging.disable(logging.CRITICAL)
from supp.project import Project
from supp.assistant import assist, location
out = []
for case in json.load(sys.stdin):
    d = tempfile.mkdtemp(prefix='c04pin')
    try:
        for fn, t in case['files'].items():
            os.makedirs(os.path.dirname(os.path.join(d, fn)), exist_ok=True)
            open(os.path.join(d, fn), 'w').write(t)
        main = os.path.join(d, case.get('main', 'main.py'))
        def call(p, c):
            with p.check_changes():
                try:
                    return repr({'assist': assist, 'location': location}[c[0]](p, case['text'], tuple(c[1]), main)).replace(d, '')
                except Exception as e:
                    return 'raises ' + type(e).__name__
        fresh1 = call(Project([d]), case['first'])
        fresh2 = call(Project([d]), case['second'])
        p = Project([d])
        out.append([fresh1, fresh2, call(p, case['first']), call(p, case['second'])])
    finally:
        shutil.rmtree(d, ignore_errors=True)
json.dump(out, sys.stdout)
'''


def run(tier, replay=None):
    ck = core.Check('C04', tier)
    seed = core.seed()
    rng = random.Random(seed)
    wd = core.scratch('c04-')
    try:
        thorough = tier == 'thorough'
        if replay:
            data = json.load(open(replay))
            jobs = [dict(data['case']['job'], id=0)]
            small = {}
        else:
            gen = core.tlc('History', 'HistoryGen.cfg', workdir=wd)
            if gen.error:
                raise core.MachineryFailure('HistoryGen failed: %s' % gen.error)
            ck.add_tlc(gen)
            small = {}
            for r in gen.records:
                if isinstance(r, dict) and 'order' in r:
                    small.setdefault(r['n'], []).append(r['order'])
            if sum(len(v) for v in small.values()) < 1000:
                raise core.MachineryFailure('HistoryGen produced too few orders')
            progs = pybind_common.gen_cases(seed, 2500 if thorough else 180, mix={'c03': 0.2}, exec_limit=30)
            jobs = []
            for c in progs:
                sites = [list(c['read_pos'][k]) for k in sorted(c['read_pos'], key=int)]
                # loops make the memo interesting: prefer sites of programs with loops, but keep all
                n = len(sites)
                if n == 0:
                    continue
                if n <= 5:
                    orders = small[n] if thorough else rng.sample(small[n], min(len(small[n]), 120))
                else:
                    # all permutations of a window of <= 5 sites embedded in the module, plus the large orders
                    win = sorted(rng.sample(range(1, n + 1), 5))
                    perms = rng.sample(small[5], 40 if not thorough else 200)
                    orders = [[win[i - 1] for i in p] for p in perms] + big_orders(n, rng, 6 if not thorough else 20)
                jobs.append({'id': len(jobs), 'source': c['source'], 'filename': '/nonexistent-verif-root/p%d.py' % c['id'],
                             'sites': sites, 'orders': orders, 'kind': 'generated'})
            # multi-scope modules: nested functions, sibling closures, lambdas, classes, comprehensions, global / nonlocal
            import ast
            for mi, src in enumerate(scopes.gen_modules(seed * 31 + 5, 1500 if thorough else 90)):
                sites = sorted((n.lineno, n.col_offset, n.id) for n in ast.walk(astpos.parse(src)) if isinstance(n, ast.Name) and isinstance(n.ctx, ast.Load))
                sites = [list(x) for x in sites if x[2] != 'use']
                n = len(sites)
                if n < 2:
                    continue
                if n <= 5:
                    orders = rng.sample(small[n], min(len(small[n]), 60))
                else:
                    win = sorted(rng.sample(range(1, n + 1), 5))
                    orders = [[win[i - 1] for i in p_] for p_ in rng.sample(small[5], 30)] + big_orders(n, rng, 5)
                    # repeated identical requests: every site twice in a row, and the whole module twice
                    orders.append([i for i in range(1, n + 1) for _ in (0, 1)])
                jobs.append({'id': len(jobs), 'source': src, 'filename': '/nonexistent-verif-root/s%d.py' % mi, 'sites': sites,
                             'orders': orders, 'kind': 'scopes'})
            # scopes with hundreds of regions (the analysis resolves them iteratively the first time a scope is queried)
            for li, nifs in enumerate((120, 400)):
                src = 'c = 0\n' + ''.join('if c:\n    v%d = %d\n' % (i % 7, i) for i in range(nifs)) + 'print(v3, c)\n'
                sites = sorted((n.lineno, n.col_offset, n.id) for n in ast.walk(astpos.parse(src)) if isinstance(n, ast.Name) and isinstance(n.ctx, ast.Load))
                sites = [list(x) for x in sites]
                n = len(sites)
                sites = [sites[i - 1] for i in (1, 2, n // 2, n - 2, n - 1, n)]     # first, middle and last reads only
                orders = [[1, 6], [6, 1], [1, 5, 6], [3, 6, 1], [1, 2, 3, 4, 5, 6], [6, 5, 4, 3, 2, 1], [2, 4, 1, 6]]
                jobs.append({'id': len(jobs), 'source': src, 'filename': '/nonexistent-verif-root/long%d.py' % li, 'sites': sites,
                             'orders': orders, 'kind': 'long'})
            files = sorted(glob.glob(os.path.join(core.REPO, 'supp', '*.py')) + glob.glob(os.path.join(core.REPO, 'tests', '*.py')))
            import sysconfig
            std = sorted(glob.glob(os.path.join(sysconfig.get_paths()['stdlib'], '*.py')))
            files += rng.sample(std, 60 if thorough else 8)
            for f in files:
                r = real_file_sites(f, rng, 60 if not thorough else 150)
                if not r or not r[1]:
                    continue
                jobs.append({'id': len(jobs), 'source': r[0], 'filename': f, 'sites': r[1],
                             'orders': big_orders(len(r[1]), rng, 3 if not thorough else 8), 'kind': 'file'})
        if not replay:
            memo_level(ck, [j for j in jobs if j['kind'] in ('generated', 'scopes')], wd, thorough, rng)
        results = run_workers(jobs)
        byid = {r['id']: r for r in results}
        cases = []
        meta = {}
        for j in jobs:
            r = byid[j['id']]
            for oi, h in enumerate(r['hists']):
                cid = len(cases)
                cases.append({'id': cid, 'fresh': r['fresh'], 'hist': h})
                meta[cid] = (j, 'order', j['orders'][oi])
                ck.evaluations += 1
                if len(set(j['orders'][oi])) >= 2:
                    ck.nontrivial.add((j['id'], tuple(j['orders'][oi])))
            # whole-file lint: expected = fresh visibility
            if r['lint']:
                cid = len(cases)
                cases.append({'id': cid, 'fresh': [x[2] for x in r['lint']], 'hist': [[x[0], x[1]] for x in r['lint']]})
                meta[cid] = (j, 'lint', None)
                ck.evaluations += 1
            if r['api']:
                cid = len(cases)
                cases.append({'id': cid, 'fresh': [x[2] for x in r['api']], 'hist': [[i + 1, x[1]] for i, x in enumerate(r['api'])]})
                meta[cid] = (j, 'api', [x[0] for x in r['api']])
                ck.evaluations += 1
        # request pairs on one Project whose answers go through per-Project tables (relative imports at several levels from one
        # directory): histories of two requests, the fresh answers computed on a new Project each
        if not replay:
            p = core.run_repo_python(['-c', PINNED_SCRIPT], inp=json.dumps(API_PAIRS).encode(), timeout=300)
            if p.returncode != 0:
                raise core.MachineryFailure('C04 request pairs: %s' % p.stderr.decode(errors='replace')[-1500:])
            for k, (case, (f1, f2, l1, l2)) in enumerate(zip(API_PAIRS, json.loads(p.stdout.decode()))):
                cid = len(cases)
                cases.append({'id': cid, 'fresh': [f1, f2], 'hist': [[1, l1], [2, l2]]})
                meta[cid] = ({'id': 'pair-%d' % k, 'source': case['text'], 'filename': case['main'], 'sites': [case['first'], case['second']], 'orders': []},
                             'pair', None)
                ck.evaluations += 1
        tl, fails = core.tlc_cases('HistoryCheck', 'HistoryCheck.cfg', cases, 'C04', workdir=wd, timeout=3000)
        ck.add_tlc(tl)
        ck.traces = sum(len(c['hist']) for c in cases)
        seen = set()
        for f in sorted(fails, key=lambda f: (len(meta[f[2]][0]['source']), f[2])):
            j, kind, order = meta[f[2]]
            if (j['id'], kind) in seen:
                continue
            seen.add((j['id'], kind))
            if len(seen) > 8:
                break
            l, site = f[4]
            c = cases[f[2]]
            sig = {'source': j['source'], 'kind': kind, 'order': (order[:l] if order else None)}
            ck.violation(sig, 'query %d of the %s history (site %s at %s) answered %s, a fresh analysis answers %s; queries before: %s' % (
                l, kind, site, j['sites'][site - 1] if kind != 'api' else '-', c['hist'][l - 1][1][:200], c['fresh'][site - 1][:200],
                (order[:l - 1] if order else kind)),
                {'job': {'source': j['source'], 'filename': j['filename'], 'sites': j['sites'], 'orders': [order] if order else []}})
        ck.extra['failing_histories'] = len({f[2] for f in fails})
        ck.extra['queries'] = ck.traces
        ck.rule = ('histories = query orders over the read sites of generated programs (TLC-enumerated: every permutation of <= 5 sites and '
                   'every sequence with repetition of length <= 4; for larger modules permutations of a 5-site window plus forward / reverse / '
                   'inside-out / random orders with repetitions), whole-file lint, lint/assist sequences on one Project, and the same large '
                   'orders over real files of the repository and the standard library; non-trivial = at least two distinct sites; distinct by (module, order)')
        ck.exhaustive = False
        for j in jobs[:1] + jobs[-1:]:
            ck.sample({'file': j['filename'], 'sites': j['sites'][:6], 'orders': j['orders'][:3], 'fresh': byid[j['id']]['fresh'][:3]})
        ck.assumptions = ['queries are made through Flow.names_at on one analysis object (the entry point every API function uses)']
        # pinned inputs of open findings (known_findings.json): two requests on one Project against the second request on a new one
        pinned = [f for f in ck.findings if isinstance(f.get('input'), dict)]
        if pinned and not replay:
            p = core.run_repo_python(['-c', PINNED_SCRIPT], inp=json.dumps([f['input'] for f in pinned]).encode(), timeout=300)
            if p.returncode != 0:
                raise core.MachineryFailure('pinned C04 inputs: %s' % p.stderr.decode(errors='replace')[-1500:])
            for f, (f1, f2, l1, l2) in zip(pinned, json.loads(p.stdout.decode())):
                if (f1, f2) != (l1, l2):
                    ck.known(f['id'], f['what'])
            ck.extra['pinned_open_findings_observed'] = len(pinned)
        return ck.finish()
    finally:
        shutil.rmtree(wd, ignore_errors=True)
