"""Multi-scope part of C01: programs of vlib/gen/mscope.py -> CPython executions + supp observations ->
spec/PyScopeEnum.tla (two-way validation of the reference semantics) and spec/PyScopeCheck.tla (clause Visible)."""
import json
import os
from concurrent.futures import ThreadPoolExecutor

from .. import core

TLC_FIELDS = ('id', 'nodes', 'scopes', 'builtins')


def gen_cases(seed, n, gseeds=None, exec_limit=400):
    nworkers = core.NCPU
    if gseeds is not None:
        jobs = [{'gseeds': gseeds, 'base': 0, 'exec_limit': exec_limit}]
    else:
        per = n // nworkers + 1
        jobs = [{'seed': seed * 104729 + i, 'n': per, 'base': i * 100000, 'exec_limit': exec_limit} for i in range(nworkers)]

    def one(job):
        p = core.run_repo_python(['-m', 'vlib.drivers.mscope_worker'], inp=json.dumps(job).encode(), timeout=3000)
        if p.returncode != 0:
            raise core.MachineryFailure('mscope worker failed: %s' % p.stderr.decode(errors='replace')[-2500:])
        return json.loads(p.stdout.decode())
    out = []
    with ThreadPoolExecutor(max_workers=nworkers) as ex:
        for r in ex.map(one, jobs):
            out.extend(r)
    return out


def _shards(view, per):
    n = min(core.NCPU, max(1, len(view) // per))
    return [view[i::n] for i in range(n)]


def conformance(cases, wd):
    view = [{k: c[k] for k in TLC_FIELDS} for c in cases]

    def one(ic):
        i, chunk = ic
        f = os.path.join(wd, 'msenum-%d.json' % i)
        with open(f, 'w') as fd:
            json.dump(chunk, fd)
        r = core.tlc('PyScopeEnum', 'PyScopeEnum.cfg', env={'VERIF_CASES': f}, workdir=wd, timeout=3000)
        if r.error or r.invariant:
            raise core.MachineryFailure('PyScopeEnum failed: %s\n%s' % (r.error or r.invariant, r.out[-2000:]))
        return r
    chunks = _shards(view, 10)
    with ThreadPoolExecutor(max_workers=len(chunks)) as ex:
        results = list(ex.map(one, enumerate(chunks)))
    tla = {}
    for r in results:
        for rec in r.records:
            if isinstance(rec, dict) and 'dec' in rec:
                tla.setdefault(rec['pid'], {})[tuple(rec['dec'])] = ([list(x) for x in rec['obs']], bool(rec['crash']))
    mism = []
    nexec = 0
    for c in cases:
        cp = {tuple(d): ([list(x) for x in o], oc == 'exc') for d, o, oc in c['cpython']}
        t = tla.get(c['id'], {})
        nexec += len(cp)
        if set(cp) != set(t):
            mism.append((c['id'], 'decision sequences differ', sorted(set(cp) ^ set(t))[:3], c['source']))
            continue
        for d in cp:
            if cp[d] != t[d]:
                mism.append((c['id'], 'observations differ for decisions %s' % (list(d),), [cp[d], t[d]], c['source']))
                break
    return results, mism, nexec


def judge(cases, wd):
    view = []
    for c in cases:
        v = {k: c[k] for k in TLC_FIELDS}
        v['rd'] = [{k: o[k] for k in ('id', 'vis', 'e02', 'e42', 'assist', 'alts')} for o in c['rd']]
        v['unused'] = c['unused']
        view.append(v)

    def one(ic):
        i, chunk = ic
        f = os.path.join(wd, 'mschk-%d.json' % i)
        with open(f, 'w') as fd:
            json.dump(chunk, fd)
        r = core.tlc('PyScopeCheck', 'PyScopeCheck.cfg', env={'VERIF_CASES': f}, workdir=wd, timeout=3000)
        if r.error:
            raise core.MachineryFailure('PyScopeCheck failed: %s\n%s' % (r.error, r.out[-2500:]))
        if not r.tagged('VDONE'):
            raise core.MachineryFailure('PyScopeCheck: no VDONE\n%s' % r.out[-2500:])
        return r
    chunks = _shards(view, 8)
    with ThreadPoolExecutor(max_workers=len(chunks)) as ex:
        results = list(ex.map(one, enumerate(chunks)))
    fails = []
    seen = {}
    for r in results:
        fails.extend(r.tagged('VFAIL'))
        for s in r.tagged('SEEN'):
            for e in s[1]:
                seen[e['id']] = e
    return results, fails, seen


def run_into(ck, tier, wd, replay_case=None, prop='C01'):
    """adds the multi-scope evidence and violations to the Check `ck` (property C01)"""
    thorough = tier == 'thorough'
    if replay_case is not None:
        cases = gen_cases(0, 0, gseeds=[replay_case['gseed']])
    else:
        cases = gen_cases(core.seed(), 4000 if thorough else 480)
    # two-way validation of the reference on every program (C01, and every thorough run) / on every third program (C02 quick)
    sample = cases if (thorough or prop == 'C01' or replay_case is not None) else cases[::3]
    enum_res, mism, nexec = conformance(sample, wd)
    if mism:
        raise core.MachineryFailure('reference semantics PyScope.tla disagrees with CPython on program %s: %s %s\n%s' % (
            mism[0][0], mism[0][1], json.dumps(mism[0][2])[:600], mism[0][3]))
    ck.add_tlc(enum_res)
    res, fails, seen = judge(cases, wd)
    ck.add_tlc(res)
    ck.traces += sum(len(c['rd']) for c in cases)
    ck.evaluations += len(cases)
    ck.extra['multiscope_programs'] = len(cases)
    ck.extra['multiscope_cpython_executions_matched_two_way'] = nexec
    ck.extra['multiscope_scopes'] = sum(len(c['scopes']) for c in cases)
    byid = {c['id']: c for c in cases}
    reported = set()
    mine = [f for f in fails if f[1] == prop]
    others = {}
    for f in fails:
        if f[1] != prop:
            others[f[1]] = others.get(f[1], 0) + 1
    ck.extra['multiscope_clause_failures_of_other_properties'] = others
    for f in sorted(mine, key=lambda f: (len(byid[f[2]]['source']), f[2])):
        c = byid[f[2]]
        rid = f[4][0]
        pos = c['read_pos'].get(str(rid)) if rid else None
        if f[2] in reported:
            continue
        reported.add(f[2])
        if len(reported) > 10:
            break
        sig = {'clause': '%s/multiscope' % f[3], 'source': c['source'], 'read': pos}
        if f[3] == 'Visible':
            what = ('C01 clause Visible: read %s at %s of a generated multi-scope program succeeds at run time but supp says '
                    '[visible, E02, E42, offered] = %s; values seen: %s' % (rid, pos, json.dumps(f[4][1][:4]), json.dumps(f[4][1][4])))
        elif f[3] == 'DefIncluded':
            sp = c.get('site_pos', {})
            what = ('C02 clause DefIncluded: read %s at %s of a generated multi-scope program obtains the binding(s) %s of its own body at run time; '
                    'supp lists %s' % (rid, pos, json.dumps([[v, sp.get(str(v))] for v in f[4][1][0]]), json.dumps(f[4][1][1])))
        else:
            sp = c.get('site_pos', {})
            what = 'C02 clause NoFalseUnused: binding(s) %s of a generated multi-scope program are read at run time (in their own body) but reported unused' % (
                json.dumps([[v, sp.get(str(v))] for v in f[4][1]]),)
        ck.violation(sig, what, {'multiscope': True, 'gseed': c['gseed'], 'source': c['source'], 'read': pos})
    ck.extra['multiscope_failing_programs'] = len({f[2] for f in mine})
    for c in cases:
        s = seen.get(c['id'])
        if s and len(c['scopes']) >= 3 and len(c['cpython']) >= 2:
            ck.nontrivial.add(json.dumps([c['nodes'], c['scopes']], sort_keys=True))
    for c in cases[:1]:
        ck.sample({'multiscope_source': c['source'], 'scopes': len(c['scopes']), 'executions': len(c['cpython'])})
    return cases
