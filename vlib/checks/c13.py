"""C13 - the analysis depends on program structure, not on layout.

G + R spec  spec/Layout.tla (layout vectors enumerated by TLC), spec/LayoutCheck.tla (trace judge)
Programs (C01 generator + real files) are re-rendered by a token-level layout-only printer in TLC-chosen layouts
(checked to parse to the identical AST) and in their ast.unparse normal form; layout-invariant summaries of the real
analysis must agree with the baseline rendering.
"""
import glob
import json
import os
import random
import shutil
from concurrent.futures import ThreadPoolExecutor

from .. import core
from . import pybind_common
from ..gen import scopes


LAYOUT_ZOO = [
    # blocks that start with a decorated definition reading what the block header has just bound
    'def deco(x):\n    return lambda f: f\ndef f(a, b):\n    @deco(a)\n    def g(c=b):\n        return c\n    return g, a\n'
    'try:\n    pass\nexcept Exception as e:\n    @deco(e)\n    class K:\n        pass\n    print(e)\n'
    'for i in range(3):\n    @deco(i)\n    @deco(f)\n    def h(j=i):\n        return j\n    print(h, i)\n'
    'with open(f) as fh:\n    @deco(fh)\n    async def co(k):\n        return k, fh\n'
    'class C:\n    @deco(f)\n    def m(self, x):\n        @deco(x)\n        def inner():\n            return self, x\n        return inner\n',
    # values, iterables and context expressions that span lines, targets read on the line they are bound on
    'def f(items, key):\n    out = [key(i) for i in items if i]\n    total = sum(out, key(0))\n    while (n := len(out)) > total: out.pop(); total = n\n'
    '    with open(key(n)) as a, open(key(a)) as b:\n        res = (a, b, total, n)\n    for x, (y, z) in zip(out, res): w = x; print(w, y, z)\n    return res, out\n',
    # a `from` that is no import and may start a physical line of its own
    'def f(value, parts):\n    try:\n        pass\n    except Exception as err:\n        raise TypeError(value) from err\n    x = yield from parts\n    return x, value\n',
    # a keyword argument written before a starred one: the same tree as the other order (what ast.unparse prints)
    # (a walrus inside the keyword, read by the starred argument, is a question of evaluation order, not of layout: 12.6)
    'def f(*a, **k):\n    return a\nx = [0]\nx = f(k=1, *x)\nclass M(type):\n    pass\nB = [object]\nclass C(metaclass=M, *B):\n    pass\ny = [1]\n'
    'with f(k=1, *y) as y:\n    pass\nfor y in f(k=2, *y): print(y)\nprint(f(k=x, *[y]), x, y, C)\n',
]


def run_workers(jobs):
    n = core.NCPU
    chunks = [jobs[i::n] for i in range(n)]
    chunks = [c for c in chunks if c]

    def one(chunk):
        p = core.run_repo_python(['-m', 'vlib.drivers.c13_worker'], inp=json.dumps({'jobs': chunk}).encode(), timeout=3000)
        if p.returncode != 0:
            raise core.MachineryFailure('c13 worker failed: %s' % p.stderr.decode(errors='replace')[-2000:])
        return json.loads(p.stdout.decode())
    out = []
    with ThreadPoolExecutor(max_workers=len(chunks)) as ex:
        for r in ex.map(one, chunks):
            out.extend(r)
    return out


def run(tier, replay=None):
    ck = core.Check('C13', tier)
    seed = core.seed()
    rng = random.Random(seed)
    wd = core.scratch('c13-')
    try:
        thorough = tier == 'thorough'
        if replay:
            data = json.load(open(replay))
            jobs = [dict(data['case']['job'], id=0, keep_texts=True)]
        else:
            gen = core.tlc('Layout', 'LayoutGen.cfg', workdir=wd)
            if gen.error:
                raise core.MachineryFailure('LayoutGen failed: %s' % gen.error)
            ck.add_tlc(gen)
            vectors = [r for r in gen.records if isinstance(r, dict) and 'indent' in r]
            if len(vectors) != 1620:
                raise core.MachineryFailure('LayoutGen produced %d vectors' % len(vectors))
            vectors.sort(key=lambda v: json.dumps(v, sort_keys=True))
            wild = [v for v in vectors if v['join'] and v['brk'] and v['space']]
            jobs = []
            progs = pybind_common.gen_cases(seed, 2000 if thorough else 220, mix={'c03': 0.3}, exec_limit=20)
            per = 14 if thorough else 6
            for c in progs:
                vs = rng.sample(vectors, per - 2) + rng.sample(wild, 2)
                jobs.append({'id': len(jobs), 'source': c['source'], 'filename': '/nonexistent-verif-root/p%d.py' % c['id'],
                             'vectors': vs, 'seeds': [rng.randrange(1 << 30) for _ in vs], 'unparse': True, 'kind': 'generated'})
            # hand-written sources around visibility positions that depend on where a block starts: every one under many vectors
            for zi, src in enumerate(LAYOUT_ZOO):
                vs = rng.sample([v for v in vectors if v['cont']], 500 if thorough else 90) + rng.sample(vectors, 200 if thorough else 40)
                jobs.append({'id': len(jobs), 'source': src, 'filename': '/nonexistent-verif-root/z%d.py' % zi,
                             'vectors': vs, 'seeds': [rng.randrange(1 << 30) for _ in vs], 'unparse': True, 'kind': 'zoo'})
            for mi, src in enumerate(scopes.gen_modules(seed * 13 + 1, 1200 if thorough else 120)):
                vs = rng.sample(vectors, per - 2) + rng.sample(wild, 2)
                jobs.append({'id': len(jobs), 'source': src, 'filename': '/nonexistent-verif-root/s%d.py' % mi,
                             'vectors': vs, 'seeds': [rng.randrange(1 << 30) for _ in vs], 'unparse': True, 'kind': 'scopes'})
            files = sorted(glob.glob(os.path.join(core.REPO, 'supp', '*.py')) + glob.glob(os.path.join(core.REPO, 'tests', '*.py')))
            import sysconfig
            std = sorted(glob.glob(os.path.join(sysconfig.get_paths()['stdlib'], '*.py')))
            files += rng.sample(std, 120 if thorough else 16)
            for f in files:
                try:
                    src = open(f, encoding='utf-8').read()
                except (UnicodeDecodeError, OSError):
                    continue
                if len(src) > 150000:
                    continue
                vs = rng.sample(vectors, 3 if not thorough else 6) + rng.sample(wild, 1)
                jobs.append({'id': len(jobs), 'source': src, 'filename': f, 'vectors': vs,
                             'seeds': [rng.randrange(1 << 30) for _ in vs], 'unparse': True, 'kind': 'file'})
        results = run_workers(jobs)
        byid = {r['id']: r for r in results}
        cases = []
        skipped = 0
        disc = 0
        for j in jobs:
            r = byid[j['id']]
            if 'skipped' in r:
                skipped += 1
                continue
            disc += r['discarded']
            cases.append({'id': j['id'], 'base': r['base'], 'layouts': r['layouts']})
            ck.evaluations += len(r['layouts'])
            for v in r['used']:
                if v.get('unparse') or v.get('join') or v.get('brk') or v.get('oneline') or v.get('cont') or v.get('blank'):
                    ck.nontrivial.add((j['id'], json.dumps(v, sort_keys=True)))
        tl, fails = core.tlc_cases('LayoutCheck', 'LayoutCheck.cfg', cases, 'C13', workdir=wd, timeout=3000)
        ck.add_tlc(tl)
        ck.traces = ck.evaluations
        jobs_by_id = {j['id']: j for j in jobs}
        seen = set()
        for f in sorted(fails, key=lambda f: len(jobs_by_id[f[2]]['source'])):
            j = jobs_by_id[f[2]]
            if j['id'] in seen:
                continue
            seen.add(j['id'])
            if len(seen) > 8:
                break
            l = f[4] if isinstance(f[4], int) else f[4][0]
            r = byid[j['id']]
            vec = r['used'][l - 1]
            # re-run keeping the text of the failing rendering for the report
            idx = j['vectors'].index(vec) if vec in j['vectors'] else None
            job1 = dict(j, id=0, keep_texts=True)
            if idx is not None:
                job1['vectors'], job1['seeds'], job1['unparse'] = [vec], [j['seeds'][idx]], False
            else:
                job1['vectors'], job1['seeds'] = [], []
            rr = run_workers([job1])[0]
            text = rr['texts'][0] if rr.get('texts') else ''
            lay = rr['layouts'][0] if rr.get('layouts') else {'diag': '', 'reads': []}
            diff = []
            if lay['diag'] != r['base']['diag']:
                diff.append(['diag', r['base']['diag'][:300], lay['diag'][:300]])
            for i, (a, b) in enumerate(zip(r['base']['reads'], lay['reads'])):
                if a != b:
                    diff.append(['read %d' % i, a[:200], b[:200]])
                    break
            sig = {'clause': f[3], 'source': j['source'] if len(j['source']) < 3000 else j['filename'], 'layout': vec}
            ck.violation(sig, 'clause %s: rendering %s of %s is analysed differently from the baseline: %s' % (
                f[3], json.dumps(vec), j['filename'], json.dumps(diff)[:700]),
                {'job': {'source': j['source'], 'filename': j['filename'], 'vectors': job1['vectors'], 'seeds': job1['seeds'],
                         'unparse': job1.get('unparse', False)}, 'rendering': text[:6000], 'diff': diff})
        ck.extra.update({'renderings': ck.evaluations, 'renderings_discarded_ast_differs': disc, 'files_skipped_analysis_raises': skipped,
                         'failing_programs': len({f[2] for f in fails})})
        ck.rule = ('programs = C01-generator programs and real files (repository + a sample of the standard library); renderings = layout vectors '
                   'enumerated by TLC from Layout.tla (1620 combinations of indent/join/oneline/bracket-break/continuation/spaces/blank+comment '
                   'lines; a seeded sample per program) applied by a token-level printer and accepted only if the AST is identical, plus the '
                   'ast.unparse normal form; non-trivial = a rendering that changes more than the indentation unit; distinct by (program, vector)')
        ck.exhaustive = False
        if cases:
            j = jobs_by_id[cases[0]['id']]
            ck.sample({'file': j['filename'], 'vectors': byid[j['id']]['used'][:3], 'base_diag': cases[0]['base']['diag'][:300],
                       'reads': cases[0]['base']['reads'][:3]})
        ck.assumptions = ['a rendering is used only if ast.dump of its parse equals that of the original',
                          'files on which the analysis itself raises are skipped here (C08)']
        return ck.finish()
    finally:
        shutil.rmtree(wd, ignore_errors=True)
