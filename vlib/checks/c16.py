"""C16 - exactly one server under every interleaving; close and disconnect end it.

M-spec  spec/Startup.tla  (line-granular model of remote.py start-up; TLC exhaustive)
R-spec  spec/Session.tla  (trace specification judging event logs of the real code)
Binding: TLC behaviours (edge cover of the dumped state graph, -simulate traces)
are replayed on the real Environment by the line scheduler (vlib/sched.py) with the
model state compared after every step; event logs of those runs, of random
schedules and of real-subprocess scenarios are validated against Session.tla.
"""
import json
import os
import random
import shutil
import subprocess
from concurrent.futures import ThreadPoolExecutor

from .. import core, tlaval

MC_INVARIANTS = ['OneLaunchPerEpoch', 'OneLaunchEver', 'NoHandshakeException', 'NoExceptionWithoutClose',
                 'PrepareNeverRaises', 'Answered', 'OwnReply', 'LockSane', 'StarterOwnsPt', 'NoDeadlock']


def cfg_text(threads, seqs, maxfail=0, joinrace=False, calllock=True):
    return ('SPECIFICATION Spec\nCONSTANTS\n  Threads = {%s}\n  OpSeqs <- %s\n  MaxFail = %d\n  JoinRace = %s\n  CallLock = %s\n'
            '  Symmetric = TRUE\n%s\nCHECK_DEADLOCK FALSE\n' % (
                ', '.join('"t%d"' % (i + 1) for i in range(threads)), seqs, maxfail,
                'TRUE' if joinrace else 'FALSE', 'TRUE' if calllock else 'FALSE', '\n'.join('INVARIANT ' + i for i in MC_INVARIANTS)))


def write_cfg(wd, name, *a, **kw):
    p = os.path.join(wd, name + '.cfg')
    with open(p, 'w') as fd:
        fd.write(cfg_text(*a, **kw))
    return p


def expect_of(st):
    pc = {p: ('rx' if l == 'rxe' else l) for p, l in st['pc'].items()}   # both are the with-exit line of run()
    return {'pc': pc, 'lock': st['lock'], 'clock': st['clock'], 'pt': st['pt'], 'conn': st['conn'], 'live': st['live']}


def proc_of(act, args):
    return args[0] if args else 's'


def jobs_from_graph(g, rng, max_paths, tag):
    paths, ncov = tlaval.edge_cover(g, rng, max_paths=max_paths)
    jobs = []
    for root, path in paths:
        st0 = g.get(root)
        ops = {t: list(v) for t, v in st0['ops'].items()}
        sched, expect = [], []
        for (act, args, node) in path:
            who = proc_of(act, args)
            sched.append([who, 'fail'] if act == 'U3fail' else who)
            expect.append(expect_of(g.get(node)))
        jobs.append({'id': len(jobs), 'ops': ops, 'schedule': sched, 'expect': expect, 'src': tag})
    return jobs, ncov


def jobs_from_sim(files, tag):
    jobs = []
    for f in files:
        tr = tlaval.read_sim_trace(f)
        if len(tr) < 2:
            continue
        st0 = tr[0][1]
        ops = {t: list(v) for t, v in st0['ops'].items()}
        sched, expect = [], []
        prev = st0
        for act, st in tr[1:]:
            moved = [p for p in st['pc'] if st['pc'][p] != prev['pc'][p]]
            if act in ('S2', 'S3'):
                who = 's'
            elif len(moved) == 1:
                who = moved[0]
            else:
                # P5 moves the caller and the starter; a finished op may leave pc unchanged
                cand = [p for p in moved if p != 's'] or moved
                who = cand[0] if cand else None
                if who is None:
                    # pc unchanged (e.g. K1 no-op close followed by another close): find by opi/started
                    ch = [t for t in st['opi'] if st['opi'][t] != prev['opi'][t] or st['started'][t] != prev['started'][t]]
                    who = ch[0] if ch else None
            if who is None:
                break
            sched.append([who, 'fail'] if act == 'U3fail' else who)
            expect.append(expect_of(st))
            prev = st
        jobs.append({'id': 0, 'ops': ops, 'schedule': sched, 'expect': expect, 'src': tag})
    return jobs


OPSEQS = [['prepare'], ['call'], ['close'], ['prepare', 'call'], ['call', 'prepare'], ['call', 'call'],
          ['prepare', 'prepare', 'call'], ['call', 'close'], ['close', 'call'], ['prepare', 'close', 'call'],
          ['call', 'close', 'call'], ['prepare', 'call', 'close', 'prepare', 'call'], ['close', 'prepare'],
          ['call', 'close', 'prepare', 'call']]


def random_jobs(rng, n):
    jobs = []
    for _ in range(n):
        nt = rng.choice([2, 3, 3])
        noclose = rng.random() < 0.5
        seqs = [s for s in OPSEQS if not (noclose and 'close' in s)]
        ops = {'t%d' % (i + 1): rng.choice(seqs) for i in range(nt)}
        procs = sorted(ops) + ['s']
        # bursty schedules: a process keeps the baton for a geometric number of steps
        sched = []
        while len(sched) < 90:
            who = rng.choice(procs)
            sched += [who] * rng.choice([1, 1, 1, 2, 3, 5])
        fail = 1 if rng.random() < 0.15 else 0
        jobs.append({'id': 0, 'ops': ops, 'schedule': sched, 'fail': fail, 'src': 'random'})
    return jobs


def run_workers(jobs, nworkers=None):
    nworkers = nworkers or core.NCPU
    chunks = [jobs[i::nworkers] for i in range(nworkers)]
    chunks = [c for c in chunks if c]

    def one(chunk):
        p = core.run_repo_python(['-m', 'vlib.drivers.c16_worker'], inp=json.dumps({'jobs': chunk}).encode(), timeout=3000)
        if p.returncode != 0:
            raise core.MachineryFailure('c16 worker failed: %s' % p.stderr.decode(errors='replace')[-2000:])
        return json.loads(p.stdout.decode())
    out = []
    with ThreadPoolExecutor(max_workers=len(chunks) or 1) as ex:
        for r in ex.map(one, chunks):
            out.extend(r)
    return out


def run_real(name, tries=3):
    last = None
    for _ in range(tries):
        p = core.run_repo_python(['-m', 'vlib.drivers.c16_real', name], timeout=300)
        if p.returncode != 0:
            last = core.MachineryFailure('real scenario %s crashed: %s' % (name, p.stderr.decode(errors='replace')[-1500:]))
            continue
        return json.loads(p.stdout.decode())
    raise last


def switches(schedule):
    names = [s[0] if isinstance(s, list) else s for s in schedule]
    return sum(1 for a, b in zip(names, names[1:]) if a != b)


def judge(ck, cases, wd):
    res, fails = core.tlc_cases('Session', 'Session.cfg', cases, 'C16', workdir=wd)
    ck.add_tlc(res)
    ck.traces += len(cases)
    return fails


def run(tier, replay=None):
    ck = core.Check('C16', tier)
    rng = random.Random(core.seed())
    wd = core.scratch('c16-')
    try:
        if replay:
            return do_replay(ck, replay, wd)
        thorough = tier == 'thorough'
        # ---- A. exhaustive model checking of the mechanism ------------------
        mc = [('2t', (2, 'Seqs3', 0)), ('2t-fail', (2, 'Seqs3', 1)), ('2t-rep', (2, 'Rep2', 0)),
              ('3t-noclose', (3, 'NoClose2', 0))]
        if thorough:
            mc += [('3t', (3, 'Seqs2', 0)), ('3t-fail', (3, 'Seqs1', 1)), ('3t-noclose3', (3, 'NoClose3', 0))]
        cfgs = {n: write_cfg(wd, n, *a) for n, a in mc}
        jr = write_cfg(wd, 'joinrace', 2, 'Seqs2', 0, joinrace=True)
        nl = write_cfg(wd, 'nocalllock', 2, 'Seqs2', 0, calllock=False)

        def mcrun(n):
            return n, core.tlc('StartupMC', cfgs[n], workdir=wd, timeout=3000)
        with ThreadPoolExecutor(max_workers=8) as ex:
            fut_mc = [ex.submit(mcrun, n) for n in cfgs]
            fut_jr = ex.submit(core.tlc, 'StartupMC', jr, None, wd)
            fut_nl = ex.submit(core.tlc, 'StartupMC', nl, None, wd)
            # ---- B. state graphs for replay -----------------------------------
            dots = [('g2', (2, 'Seqs2' if not thorough else 'Seqs3', 0)), ('g2f', (2, 'NoClose2', 1))]
            gcfgs = {n: write_cfg(wd, n, *a) for n, a in dots}

            def dump(n):
                dot = os.path.join(wd, n + '.dot')
                r = core.tlc('StartupMC', gcfgs[n], workdir=wd, extra=['-dump', 'dot,actionlabels', dot], timeout=3000)
                return n, r, dot
            fut_dot = [ex.submit(dump, n) for n in gcfgs]
            # ---- C. simulated 3-thread behaviours -----------------------------
            simcfg = write_cfg(wd, 'sim3', 3, 'Seqs3', 1)
            simdir = os.path.join(wd, 'sim')
            os.makedirs(simdir)
            nsim = 400 if not thorough else 4000

            def sim():
                return core.tlc('StartupMC', simcfg, workdir=wd, simulate='file=%s/tr,num=%d' % (simdir, nsim),
                                depth=80, tseed=core.seed() + 1, timeout=3000)
            fut_sim = ex.submit(sim)
            mcres = [f.result() for f in fut_mc]
            jrres = fut_jr.result()
            nlres = fut_nl.result()
            dotres = [f.result() for f in fut_dot]
            simres = fut_sim.result()
        for n, r in mcres:
            if r.error:
                raise core.MachineryFailure('TLC error in Startup %s: %s' % (n, r.error))
            if r.invariant or r.deadlock:
                raise core.MachineryFailure(
                    'Startup.tla (model of the repaired start-up code) violates %s in config %s: the M-spec is wrong or '
                    'the design has a flaw\n%s' % (r.invariant, n, r.out[-3000:]))
            ck.add_tlc(r)
        if jrres.invariant != 'NoHandshakeException':
            raise core.MachineryFailure('vacuity guard: Startup.tla with JoinRace=TRUE no longer yields the join counterexample')
        ck.add_tlc(jrres)
        if nlres.invariant != 'OwnReply':
            raise core.MachineryFailure('vacuity guard: Startup.tla with CallLock=FALSE no longer lets a caller take another caller\'s reply (%s)' % nlres.invariant)
        ck.add_tlc(nlres)
        jobs = []
        edges = 0
        covered = 0
        for n, r, dot in dotres:
            if r.error or r.invariant:
                raise core.MachineryFailure('TLC error dumping %s: %s' % (n, r.error or r.invariant))
            g = tlaval.read_dot(dot)
            os.unlink(dot)
            js, ncov = jobs_from_graph(g, rng, 8000 if not thorough else 60000, n)
            edges += g.nedges
            covered += ncov
            jobs += js
            ck.add_tlc(r)
        if simres.error:
            raise core.MachineryFailure('TLC simulate failed: %s' % simres.error)
        simfiles = sorted(os.path.join(simdir, f) for f in os.listdir(simdir))
        jobs += jobs_from_sim(simfiles, 'sim3')
        shutil.rmtree(simdir, ignore_errors=True)
        nmodel = len(jobs)
        # ---- D. random schedules straight on the implementation ------------
        jobs += random_jobs(rng, 1500 if not thorough else 30000)
        for i, j in enumerate(jobs):
            j['id'] = i
        results = run_workers(jobs)
        byid = {r['id']: r for r in results}
        cases = []
        drift_steps = 0
        drift_sample = None
        unknown = set()
        mispaired = 0
        for j in jobs:
            r = byid[j['id']]
            if r['errors']:
                raise core.MachineryFailure('scheduler error in job %d: %s' % (j['id'], r['errors']))
            cases.append({'id': j['id'], 'events': r['events'], 'deadlock': r['deadlock']})
            if j['src'] != 'random':
                drift_steps += r['ndrift']
                if r['ndrift'] and drift_sample is None:
                    drift_sample = {'ops': j['ops'], 'schedule': j['schedule'][:40], 'drift': r['drift'][:2]}
            unknown.update(r['unknown'])
            mispaired += r['mispaired']
            ck.evaluations += 1
            if switches(j['schedule'][:r['steps'] + 5]) >= 2:
                ck.nontrivial.add(json.dumps([j['ops'], j['schedule']], sort_keys=True))
        # ---- E. real subprocess scenarios -----------------------------------
        real = []
        for name in ['close-reuse', 'disconnect', 'client-death', 'launch-failure', 'slow-launch', 'concurrent', 'concurrent-noprep']:
            real.append((name, run_real(name)))
        base = len(cases)
        for i, (name, r) in enumerate(real):
            cases.append({'id': base + i, 'events': r['events'], 'deadlock': bool(r['deadlock'])})
            ck.evaluations += 1
        fails = judge(ck, cases, wd)
        # re-run failing cases before believing them: real scenarios twice more (timing),
        # scheduled runs once in a fresh interpreter (they are deterministic); at most a
        # dozen failures are confirmed and reported, chosen to cover distinct clauses/op sets
        confirmed = []
        picked, seen_key = [], set()
        for f in sorted(fails, key=lambda f: f[2]):
            cid = f[2]
            key = (f[3], 'real' if cid >= base else json.dumps(jobs[cid]['ops'], sort_keys=True))
            if key in seen_key:
                continue
            seen_key.add(key)
            picked.append(f)
            if len(picked) >= 12:
                break
        ck.extra['failing_cases_before_confirmation'] = len({f[2] for f in fails})
        sched_f = [f for f in picked if f[2] < base]
        if sched_f:
            rr = run_workers([dict(jobs[f[2]], id=k) for k, f in enumerate(sched_f)])
            rr = {r['id']: r for r in rr}
            again = [{'id': k, 'events': rr[k]['events'], 'deadlock': rr[k]['deadlock']} for k in range(len(sched_f))]
            _, f2 = core.tlc_cases('Session', 'Session.cfg', again, 'C16', workdir=wd, nshards=1)
            bad = {x[2] for x in f2}
            for k, f in enumerate(sched_f):
                if k in bad:
                    j = jobs[f[2]]
                    confirmed.append((f, {'ops': j['ops'], 'schedule': j['schedule'], 'fail': j.get('fail', 0),
                                          'events': rr[k]['events'], 'source': j['src']}))
        for f in picked:
            cid = f[2]
            if cid >= base:
                name = real[cid - base][0]
                again = []
                for k in range(2):
                    r2 = run_real(name)
                    again.append({'id': k, 'events': r2['events'], 'deadlock': bool(r2['deadlock'])})
                _, f2 = core.tlc_cases('Session', 'Session.cfg', again, 'C16', workdir=wd, nshards=1)
                if len({x[2] for x in f2}) == 2:
                    confirmed.append((f, {'scenario': name, 'events': real[cid - base][1]['events']}))
        seen_clause = set()
        for f, payload in confirmed:
            clause = f[3]
            sig = {'clause': clause, 'ops': payload.get('ops'), 'schedule': payload.get('schedule'), 'scenario': payload.get('scenario')}
            if (clause, json.dumps(payload.get('ops'), sort_keys=True)) in seen_clause and len(ck.violations) >= 5:
                continue
            seen_clause.add((clause, json.dumps(payload.get('ops'), sort_keys=True)))
            ck.violation(sig, 'clause %s of Session.tla rejected a run of the real client: %s' % (clause, json.dumps(f[4])), payload)
        ck.drift = drift_steps
        ck.rule = ('schedules = TLC behaviours of Startup.tla (edge cover of the dumped graphs of 2-thread instances, '
                   '-simulate behaviours of the 3-thread instance with one injected launch failure) + random bursty schedules '
                   'on 2-3 threads + 7 real-subprocess scenarios; non-trivial = at least 2 context switches among the executed steps; '
                   'distinct by (op sequences, schedule)')
        ck.exhaustive = False
        ck.extra.update({'model_graph_edges': edges, 'model_graph_edges_replayed': covered,
                         'model_behaviours_replayed': nmodel, 'random_schedules': len(jobs) - nmodel,
                         'real_subprocess_scenarios': [n for n, _ in real],
                         'model_check_configs': [n for n, _ in mc], 'unlabelled_shared_lines': sorted(unknown),
                         'mispaired_replies_between_concurrent_calls_info_only': mispaired,
                         'drift_sample': drift_sample})
        for j in jobs[:2] + jobs[nmodel:nmodel + 1]:
            ck.sample({'ops': j['ops'], 'schedule': j['schedule'][:30], 'source': j['src'],
                       'events': [[e['e'], e['t'], e['k'], e['res']] for e in byid[j['id']]['events']][:25]})
        ck.assumptions = ['line granularity: races inside one source line of remote.py are not explored',
                          'process launch / connection / clock are fakes in the scheduled runs (as the property states)',
                          'ops overlapping an effective close() of another thread are unconstrained']
        return ck.finish()
    finally:
        shutil.rmtree(wd, ignore_errors=True)


def do_replay(ck, path, wd):
    data = json.load(open(path))
    case = data['case']
    if case.get('scenario'):
        r = run_real(case['scenario'])
        cases = [{'id': 0, 'events': r['events'], 'deadlock': bool(r['deadlock'])}]
    else:
        r = run_workers([{'id': 0, 'ops': case['ops'], 'schedule': case['schedule'], 'fail': case.get('fail', 0)}], 1)[0]
        cases = [{'id': 0, 'events': r['events'], 'deadlock': r['deadlock']}]
    fails = judge(ck, cases, wd)
    for e in cases[0]['events']:
        print('  ', e)
    ck.evaluations = 1
    for f in fails:
        ck.violation(data.get('signature'), 'replay: clause %s %s' % (f[3], json.dumps(f[4])), case)
    ck.sample(case)
    return ck.finish()
