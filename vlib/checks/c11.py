"""C11 - every reported position points at the identifier it names.

R-spec  spec/Positions.tla (judge); generator side: spec/Layout.tla vectors applied to binding-rich sources.
Entry points compared per binding: the bindings enumerated for the module (SourceScope.all_names), lint warnings,
go-to-definition results.
"""
import glob
import json
import os
import random
import shutil
import sysconfig
from concurrent.futures import ThreadPoolExecutor

from .. import core
from ..gen import layout

ZOO = [
    # several alternatives for one read, some bound later on the line of the read (one-line loops and branches)
    't = 0\nwhile t < 9: print(t); t = t + 1\nif t: u = 1; print(u, t)\nelse: u = 2\nfor i in range(3): print(i, u); u = i\n'
    'def f(n, acc=None):\n    while n: acc = [n, acc]; n = n - 1; print(acc, n)\n    return acc\nprint(t, u, f)\n',
    # one-letter names that also occur inside the keywords before them; tabs and continuation lines after def / class
    'async def d(e):\n    return e\nasync def f(a):\n    return a\nclass s(object):\n    pass\nclass c:\n    a = 1\n'
    'def\tname(l):\n    return l\nclass\tKlass2:\n    pass\ndef \\\n  cont(x):\n    return x\nclass \\\n  Cont2:\n    pass\n'
    'def e(f): return f\nclass a(s): pass\nprint(d, f, s, c, name, Klass2, cont, Cont2, e, a)\n',
    '''import os, sys as system, os.path
import collections.abc as abc_alias, json
from os import (path,
                sep as path_sep, getcwd)
from json import loads as json_loads, dumps
from a import a
import b.c as b
from x import y as x
@decorator
def decorated(arg1, *args, kw=None, **kwargs):
    return arg1
async def coroutine(p, /, q):
    return q
class Klass(Base, metaclass=Meta):
    attr = 1
    def method(self):
        self.inst = 2
        return self
(a1, (b1, *c1)), d1 = value
for i, (j, k) in pairs:
    pass
with open(f) as fh, lock as (l1, l2):
    pass
try:
    pass
except (A, B) as err:
    pass
x1 = 1
x2 = 2
x3 = x1
lam = lambda p1, p2=3: p1
comp = [e1 for e1 in range(3) if e1]
if (w1 := value):
    pass
print(decorated, coroutine, Klass, a1, b1, c1, d1, i, j, k, fh, l1, l2, x2, x3, lam, comp, w1)
''',
    '''def outer(first, second=None, *rest, only, **extra):
    import os, os.path
    from os import path as os, sep
    def inner(a, b):
        nonlocal first
        first = a
        return b
    class Local:
        def __init__(self, v): self.v = v
    try:
        value = inner(1, 2)
    except KeyError as missing:
        value = None
    except (TypeError, ValueError) as bad:
        value = bad
    else:
        for index, item in enumerate(rest):
            value = item
    finally:
        done = True
    with open(second) as handle:
        data = handle.read()
    result = [cell for row in data for cell in row if cell]
    return outer, Local, value, done, result, only, extra, sep, index, missing
''',
    # a multi-line import that starts on a line with non-ASCII text and puts the alias on a later, ASCII-only line; decorators whose
    # text contains `def <name>` / `class <name>`
    'from m\u00f3dulo import (nombre\n        as alias, otro\n    as segundo)\nprint(alias, segundo)\n'
    'def register(text):\n    return lambda f: f\n@register("def run")\ndef run():\n    @register("class Inner")  # class Inner\n    class Inner:\n        pass\n    return Inner\nprint(run)\n',
    # captures of a match statement
    'def f(v, w):\n    match v:\n        case [x, *rest] if x:\n            return x, rest\n        case {"k": q, ** more}:\n            return q, more\n'
    '        case {**\\\n  only}:\n            return only\n        case int(real=r) as whole:\n            return r, whole\n        case (1 | 2) as num, [*_, last]:\n'
    '            return num, last\n        case other:\n            return other\n    match w:\n        case str() as unused_capture:\n            pass\n',
]


def run_workers(jobs):
    n = core.NCPU
    chunks = [jobs[i::n] for i in range(n)]
    chunks = [c for c in chunks if c]

    def one(chunk):
        p = core.run_repo_python(['-m', 'vlib.drivers.c11_worker'], inp=json.dumps({'jobs': chunk}).encode(), timeout=3000)
        if p.returncode != 0:
            raise core.MachineryFailure('c11 worker failed: %s' % p.stderr.decode(errors='replace')[-2000:])
        return json.loads(p.stdout.decode())
    out = []
    with ThreadPoolExecutor(max_workers=len(chunks)) as ex:
        for r in ex.map(one, chunks):
            out.extend(r)
    return out


def run(tier, replay=None):
    ck = core.Check('C11', tier)
    seed = core.seed()
    rng = random.Random(seed)
    wd = core.scratch('c11-')
    try:
        thorough = tier == 'thorough'
        jobs = []
        if replay:
            data = json.load(open(replay))
            jobs = [dict(data['case']['job'], id=0)]
        else:
            gen = core.tlc('Layout', 'LayoutGen.cfg', workdir=wd)
            if gen.error:
                raise core.MachineryFailure('LayoutGen failed: %s' % gen.error)
            ck.add_tlc(gen)
            vectors = sorted([r for r in gen.records if isinstance(r, dict) and 'indent' in r], key=lambda v: json.dumps(v, sort_keys=True))
            nvec = 400 if thorough else 60
            for zi, zoo in enumerate(ZOO):
                jobs.append({'id': len(jobs), 'source': zoo, 'filename': '/nonexistent-verif-root/zoo%d.py' % zi, 'nloc': 40, 'kind': 'zoo'})
                for v in rng.sample(vectors, nvec):
                    vv = dict(v)
                    if vv['indent'] != 'tab':
                        vv['indent'] = int(vv['indent'])
                    text = layout.relayout(zoo, vv, rng.randrange(1 << 30))
                    if not layout.same_ast(zoo, text):
                        continue
                    jobs.append({'id': len(jobs), 'source': text, 'filename': '/nonexistent-verif-root/zoo%d.py' % zi, 'nloc': 25,
                                 'kind': 'zoo', 'vector': v})
            files = sorted(glob.glob(os.path.join(core.REPO, 'supp', '*.py')) + glob.glob(os.path.join(core.REPO, 'tests', '*.py')))
            stdlib = sysconfig.get_paths()['stdlib']
            std = sorted(glob.glob(os.path.join(stdlib, '*.py')) + glob.glob(os.path.join(stdlib, '*', '*.py')))
            files += std if thorough else rng.sample(std, 150)
            for f in files:
                try:
                    src = open(f, encoding='utf-8', newline='').read()
                except (UnicodeDecodeError, OSError):
                    continue
                jobs.append({'id': len(jobs), 'source': src, 'filename': f, 'nloc': 30 if thorough else 8, 'kind': 'file',
                             'seed': rng.randrange(1 << 30), 'root': os.path.dirname(f)})
        # pinned inputs of open findings: observed on every run (KNOWN-FINDING while they reproduce)
        pinned = {}
        if not replay:
            for f in ck.findings:
                if f.get('input'):
                    pinned[len(jobs)] = f
                    jobs.append({'id': len(jobs), 'source': f['input'], 'filename': '/nonexistent-verif-root/pinned.py', 'nloc': 50, 'kind': 'pinned', 'seed': 0})
        results = run_workers(jobs)
        byid = {r['id']: r for r in results}
        for jid, f in pinned.items():
            if byid[jid].get((f.get('signature') or {}).get('counter', 'line0')):
                ck.known(f['id'], f['what'])
        ck.extra['go_to_definition_results_at_line_0_excluded'] = sum(r.get('line0', 0) for r in results)
        ck.extra['attribute_assignment_sites_reported_at_the_object_expression_excluded'] = sum(r.get('attrsite', 0) for r in results)
        cases = []
        meta = {}
        skipped = 0
        for j in jobs:
            r = byid[j['id']]
            if 'skipped' in r:
                skipped += 1
                continue
            for c in r['cases']:
                cid = len(cases)
                cases.append({'id': cid, 'name': c['name'], 'kind': c['kind'], 'reports': c['reports']})
                meta[cid] = (j, c)
                ck.evaluations += 1
                if len({x['via'] for x in c['reports']}) >= 2 or j['kind'] == 'zoo':
                    ck.nontrivial.add((j['id'], c['ident'], c['reports'][0]['line'], c['reports'][0]['col']))
        tl, fails = core.tlc_cases('Positions', 'Positions.cfg', cases, 'C11', workdir=wd, timeout=3000)
        ck.add_tlc(tl)
        ck.traces = sum(len(c['reports']) for c in cases)
        seen = set()
        for f in sorted(fails, key=lambda f: len(meta[f[2]][0]['source'])):
            j, c = meta[f[2]]
            key = (f[3], j['filename'], c['ident'])
            if key in seen:
                continue
            seen.add(key)
            if len(seen) > 10:
                break
            rp = c['reports'][0]
            line = j['source'].replace('\r\n', '\n').replace('\r', '\n').split('\n')[rp['line'] - 1] if rp['inrange'] else ''
            sig = {'clause': f[3], 'file': j['filename'] if j['kind'] == 'file' else j['source'], 'name': c['ident'], 'pos': [rp['line'], rp['col']]}
            ck.violation(sig, 'clause %s: binding %r of %s reported at %s where the text is %r (line: %r)' % (
                f[3], c['ident'], j['filename'], [[x['via'], x['line'], x['col']] for x in c['reports']],
                ''.join(chr(k) for k in rp['text']), line[:120]),
                {'job': {k: j[k] for k in ('source', 'filename', 'nloc', 'kind') if k in j}, 'binding': c})
        ck.extra.update({'bindings': len(cases), 'position_reports': ck.traces, 'files_skipped': skipped,
                         'goto_definition_results': sum(byid[j['id']].get('nloc', 0) for j in jobs if 'skipped' not in byid[j['id']])})
        ck.rule = ('bindings of binding-rich sources (multi-name, parenthesised and aliased imports incl. aliases equal to module/member names, decorated '
                   'and async definitions, nested tuple and starred targets, except-as, with, lambda, comprehension, walrus) rendered in TLC-enumerated '
                   'layouts of Layout.tla, and of real files (repository + standard library); every binding on an ASCII-only line, reported through the '
                   'module enumeration, lint warnings and go-to-definition; non-trivial = reported by >= 2 entry points or from a generated layout; '
                   'distinct by (source, identifier, position)')
        ck.exhaustive = False
        for cid in (0, len(cases) // 2):
            if cid in meta:
                j, c = meta[cid]
                ck.sample({'file': j['filename'], 'binding': c['ident'], 'kind': c['kind'], 'reports': [[x['via'], x['line'], x['col']] for x in c['reports']]})
        ck.assumptions = ['star-imported names have no identifier in the text and are not judged', 'lines are split as the tokenizer does (\\n, \\r\\n, \\r)',
                          'only ASCII-only lines (columns are UTF-8 byte offsets otherwise)']
        return ck.finish()
    finally:
        shutil.rmtree(wd, ignore_errors=True)
