"""C14 - MessagePack codec: lossless, spec-conformant, rejects truncation.

Reference  spec/MsgPack.tla       format table, independent decoder, legal encodings (from the specification)
Generator  spec/MsgPackGen.tla    boundary vectors (ints, lengths, all 256 first bytes, non-minimal forms) + self-check
Encoder    spec/MsgPackEnc.tla    reference encoder choosing arbitrary legal formats for random nested values
Judge      spec/MsgPackCheck.tla  clauses Accepts / Prefixes / Valid on what the real dumps/loads did
"""
import json
import os
import random
import shutil
from concurrent.futures import ThreadPoolExecutor

from .. import core


def worker(payload, timeout=3000):
    p = core.run_repo_python(['-m', 'vlib.drivers.c14_worker'], inp=json.dumps(payload).encode(), timeout=timeout)
    if p.returncode != 0:
        raise core.MachineryFailure('c14 worker failed: %s' % p.stderr.decode(errors='replace')[-2000:])
    return json.loads(p.stdout.decode())


def pmap(f, items, n=None):
    with ThreadPoolExecutor(max_workers=n or core.NCPU) as ex:
        return list(ex.map(f, items))


def run(tier, replay=None):
    ck = core.Check('C14', tier)
    seed = core.seed()
    rng = random.Random(seed)
    wd = core.scratch('c14-')
    try:
        thorough = tier == 'thorough'
        if replay:
            data = json.load(open(replay))
            cases = [dict(data['case'], id=0)]
            if data['case'].get('vector'):
                cases = worker({'mode': 'vectors', 'vectors': [[0, data['case']['vector']]], 'seed': seed})
            tl, fails = core.tlc_cases('MsgPackCheck', 'MsgPackCheck.cfg', cases, 'C14', workdir=wd, nshards=1)
            ck.add_tlc(tl)
            ck.traces = ck.evaluations = 1
            print(json.dumps(cases[0])[:2000])
            for f in fails:
                ck.violation(data.get('signature'), 'replay: clause %s %s' % (f[3], json.dumps(f[4])), data['case'])
            ck.sample(data['case'])
            return ck.finish()
        # 1. vectors from the reference model (also model-checks the reference itself)
        gen = core.tlc('MsgPackGen', 'MsgPackGen.cfg', workdir=wd, timeout=1200)
        if gen.error or gen.invariant:
            raise core.MachineryFailure('MsgPackGen: the reference model fails its own check (%s)\n%s' % (gen.error or gen.invariant, gen.out[-2000:]))
        ck.add_tlc(gen)
        vectors = [r for r in gen.records if isinstance(r, dict) and 'kind' in r]
        if len(vectors) < 1000:
            raise core.MachineryFailure('MsgPackGen produced only %d vectors' % len(vectors))
        vectors.sort(key=lambda v: json.dumps(v, sort_keys=True))
        idv = list(enumerate(vectors))
        chunks = [idv[i::core.NCPU] for i in range(core.NCPU)]
        cases = []
        for r in pmap(lambda c: worker({'mode': 'vectors', 'vectors': c, 'seed': seed}), [c for c in chunks if c]):
            cases.extend(r)
        nvec = len(cases)
        # 2. random nested values (dumps direction)
        nrand = 20000 if thorough else 1200
        per = nrand // core.NCPU + 1
        jobs = [{'mode': 'random-values', 'n': per, 'base': 100000 + i * per, 'seed': seed * 1000 + i} for i in range(core.NCPU)]
        for r in pmap(worker, jobs):
            cases.extend(r)
        # 3. random spec-valid streams from the reference encoder
        nshape = 20000 if thorough else 1200
        per = nshape // core.NCPU + 1
        jobs = [{'mode': 'shapes', 'n': per, 'base': 500000 + i * per, 'seed': seed * 1000 + 500 + i} for i in range(core.NCPU)]
        shape_chunks = pmap(worker, jobs)

        def encode(ic):
            i, chunk = ic
            f = os.path.join(wd, 'shapes-%d.json' % i)
            with open(f, 'w') as fd:
                json.dump(chunk, fd)
            r = core.tlc('MsgPackEnc', 'MsgPackEnc.cfg', env={'VERIF_CASES': f}, workdir=wd, tseed=seed + i, timeout=3000)
            if r.error or r.invariant:
                raise core.MachineryFailure('MsgPackEnc failed (%s)\n%s' % (r.error or r.invariant, r.out[-2000:]))
            byid = {c['id']: c['shape'] for c in chunk}
            streams = [[x['id'], x['enc'], byid[x['id']]] for x in r.records if isinstance(x, dict) and 'enc' in x]
            if len(streams) != len(chunk):
                raise core.MachineryFailure('MsgPackEnc encoded %d of %d shapes' % (len(streams), len(chunk)))
            return r, worker({'mode': 'streams', 'streams': streams, 'seed': seed + i})
        for r, cs in pmap(encode, list(enumerate(shape_chunks))):
            ck.add_tlc(r)
            cases.extend(cs)
        # 4. judge
        tl, fails = core.tlc_cases('MsgPackCheck', 'MsgPackCheck.cfg', cases, 'C14', workdir=wd, timeout=3000)
        ck.add_tlc(tl)
        ck.traces = len(cases)
        ck.evaluations = len(cases)
        byid = {c['id']: c for c in cases}
        ref = [f for f in fails if f[3] == 'REF']
        if ref:
            raise core.MachineryFailure('reference model rejects its own vector: %s' % json.dumps(ref[:3]))
        seen = set()
        for f in fails:
            c = byid[f[2]]
            key = (f[3], c['kind'], json.dumps(c['shape'].get('t')), json.dumps(f[4]))
            if key in seen:
                continue
            seen.add(key)
            if len(seen) > 12:
                break
            sig = {'clause': f[3], 'enc': c['enc'][:60], 'shape': c['shape'] if len(json.dumps(c['shape'])) < 400 else c['shape'].get('t')}
            payload = {k: v for k, v in c.items() if k != 'id'}
            if c['id'] < nvec:
                payload['vector'] = vectors[c['id']]
            ck.violation(sig, 'clause %s of MsgPackCheck.tla: %s (encoding %s..., loads=%s dumps=%s)' % (
                f[3], json.dumps(f[4]), json.dumps(c['enc'][:12]), json.dumps(c['loads'])[:150], json.dumps(c['dumps'])[:150]), payload)
        for c in cases:
            k = c['kind']
            if k in ('random', 'stream') or c['refuse'] or any(x[2] if False else False for x in ()):
                pass
        # non-trivial: boundary vectors (all generated vectors are within +-3 / +-2 of a boundary or non-minimal) and
        # random values with at least one container
        nt = set()
        for c in cases:
            if c['id'] < nvec:
                nt.add(json.dumps([c['enc'], c['shape']], sort_keys=True)[:400])
            elif c['shape'].get('t') in ('arr', 'map'):
                nt.add(json.dumps(c['shape'], sort_keys=True)[:400])
        ck.nontrivial = nt
        ck.rule = ('vectors enumerated by TLC from MsgPackGen.tla (every integer within +-3 of 2^5..2^64 in every legal format, every '
                   'str/bin/ext/array/map length within +-2 of 15/16, 31/32, 255/256, 65535/65536 in every legal header form, all 256 first '
                   'bytes, out-of-range integers) + random nested values (depth <= 6) + random streams from the reference encoder '
                   '(MsgPackEnc.tla, arbitrary legal formats); every cut point of encodings <= 4 KiB is fed to the real loads; '
                   'non-trivial = boundary vector, or random value with a container at top level; distinct by (encoding, shape)')
        ck.exhaustive = False
        ck.extra.update({'boundary_vectors': nvec, 'random_values': nrand, 'reference_encoder_streams': nshape,
                         'cut_points_tried_on_impl': sum(c.get('allcuts', len(c['cuts'])) for c in cases)})
        for c in (cases[0], cases[nvec // 2], cases[nvec + 3], cases[-1]):
            ck.sample({k: (v if len(json.dumps(v)) < 300 else json.dumps(v)[:300]) for k, v in c.items()})
        ck.assumptions = ['maps of the data model are Python dicts: generated maps never repeat a key',
                          'payload content equality (long str/bin/ext runs, items of 65k-element containers) is the driver\'s byte comparison',
                          'float32 is checked at top level only']
        return ck.finish()
    finally:
        shutil.rmtree(wd, ignore_errors=True)
