"""C08 - the API is total: every text and cursor position gets an answer.

M-spec  spec/Eval.tla         the evaluator's re-entrancy guard over definition graphs with cycles (TLC: bounded, terminates)
R-spec  spec/ApiContract.tla  (typing-state mutation sequences enumerated by TLC) + spec/ApiCheck.tla (trace judge of real calls)
"""
import glob
import json
import os
import random
import shutil
import sysconfig
from concurrent.futures import ThreadPoolExecutor

from .. import core
from ..drivers import c08_worker
from . import pybind_common
from ..gen import scopes


def worker(payload):
    p = core.run_repo_python(['-m', 'vlib.drivers.c08_worker'], inp=json.dumps(payload).encode(), timeout=6000)
    if p.returncode != 0:
        raise core.MachineryFailure('c08 worker failed: %s' % p.stderr.decode(errors='replace')[-2000:])
    return json.loads(p.stdout.decode())


def make_bproj(wd):
    bproj = os.path.join(wd, 'bproj')
    os.makedirs(bproj)
    open(os.path.join(bproj, 'broken.py'), 'w').write('def (:\n')
    open(os.path.join(bproj, 'badutf.py'), 'wb').write(b'x = "\xff\xfe"\n')
    open(os.path.join(bproj, 'nul.py'), 'wb').write(b'x = 1\x00\n')
    open(os.path.join(bproj, 'selfimp.py'), 'w').write('import selfimp\nselfimp.y;y=1\ny\n')
    open(os.path.join(bproj, 'fine.py'), 'w').write('from broken import *\nfrom badutf import x\nok = 1\n')
    return bproj


def eval_cfg(n, guarded, emit):
    return ('SPECIFICATION Spec\nCONSTANTS\n  N = %d\n  Guarded = %s\nINVARIANT Bounded\n%sPROPERTY Terminates\nCHECK_DEADLOCK FALSE\n' % (
        n, 'TRUE' if guarded else 'FALSE', 'INVARIANT Emit\n' if emit else ''))


def run(tier, replay=None):
    ck = core.Check('C08', tier)
    seed = core.seed()
    rng = random.Random(seed)
    wd = core.scratch('c08-')
    try:
        thorough = tier == 'thorough'
        texts, graphs = [], []
        if replay:
            data = json.load(open(replay))
            c = data['case']
            if 'graph' in c:
                graphs = [[0, c['graph'], c['split']]]
            else:
                fn = c['filename']
                t0 = {'id': 0, 'source': c['text'], 'filename': fn, 'cursors': [c['pos']] if c.get('pos') and c['pos'] != [0, 0] else 0, 'seed': 0}
                if '/bproj/' in fn or fn == '<none>':
                    # the project of unanalysable modules is rebuilt for the replay
                    bproj = make_bproj(wd)
                    t0['root'] = bproj
                    if fn != '<none>':
                        t0['filename'] = os.path.join(bproj, os.path.basename(fn))
                texts = [t0]
        else:
            c1 = os.path.join(wd, 'g.cfg')
            open(c1, 'w').write(eval_cfg(3, True, True))
            c2 = os.path.join(wd, 'u.cfg')
            open(c2, 'w').write(eval_cfg(3, False, False))
            c3 = os.path.join(wd, 'g4.cfg')
            open(c3, 'w').write(eval_cfg(4, True, False))
            with ThreadPoolExecutor(max_workers=4) as ex:
                f1 = ex.submit(core.tlc, 'Eval', c1, None, wd)
                f2 = ex.submit(core.tlc, 'Eval', c2, None, wd)
                f3 = ex.submit(lambda: core.tlc('Eval', c3, workdir=wd, timeout=3000, xmx='6g'))
                f4 = ex.submit(core.tlc, 'ApiContract', 'MutGen.cfg', None, wd)
                r_g, r_u, r_g4, r_m = f1.result(), f2.result(), f3.result(), f4.result()
            for r in (r_g, r_g4, r_m):
                if r.error or r.invariant:
                    raise core.MachineryFailure('Eval.tla / ApiContract.tla failed: %s\n%s' % (r.error or r.invariant, r.out[-1500:]))
            if r_u.invariant != 'Bounded':
                raise core.MachineryFailure('vacuity guard: Eval.tla without the guard no longer violates Bounded')
            ck.add_tlc([r_g, r_u, r_g4, r_m])
            gs = [r for r in r_g.records if isinstance(r, dict) and 'succ' in r]
            if len(gs) != 5832:
                raise core.MachineryFailure('Eval.tla produced %d graphs' % len(gs))
            gs.sort(key=lambda r: json.dumps(r, sort_keys=True))
            cyc = [g for g in gs if any(k != 'const' for k in g['kind'])]
            pick = cyc if thorough else rng.sample(cyc, 500)
            for i, g in enumerate(pick):
                graphs.append([i, g, rng.random() < 0.6])
            mutseqs = sorted([r['muts'] for r in r_m.records if isinstance(r, dict) and 'muts' in r], key=json.dumps)
            if len(mutseqs) != 57:
                raise core.MachineryFailure('ApiContract.tla produced %d mutation sequences' % len(mutseqs))
            files = sorted(glob.glob(os.path.join(core.REPO, 'supp', '*.py')) + glob.glob(os.path.join(core.REPO, 'tests', '*.py')))
            stdlib = sysconfig.get_paths()['stdlib']
            std = sorted(glob.glob(os.path.join(stdlib, '*.py')) + glob.glob(os.path.join(stdlib, '*', '*.py')))
            files += rng.sample(std, 500 if thorough else 40)
            tid = 100000
            for f in files:
                try:
                    src = open(f, encoding='utf-8', newline='').read()
                except (UnicodeDecodeError, OSError):
                    continue
                if len(src) > 120000:
                    continue
                texts.append({'id': tid, 'source': src, 'filename': f, 'cursors': 6 if not thorough else 20, 'seed': rng.randrange(1 << 30)})
                tid += 1
                for ms in rng.sample(mutseqs[1:], 4 if not thorough else 12):
                    texts.append({'id': tid, 'source': src, 'filename': f, 'cursors': 2 if not thorough else 4, 'seed': rng.randrange(1 << 30), 'muts': ms})
                    tid += 1
            # hand-written snippets around the constructs the analysis treats specially: every cursor position
            for s in c08_worker.SNIPPETS:
                # (texts with hundreds of nested branches take seconds per request: a handful of cursors only)
                # (and the end of the last line, where the long chains of definitions are queried)
                ls = s.split('\n')
                last = max([i for i, l in enumerate(ls) if l] or [0])
                ends = [[last + 1, len(ls[last])], [last + 1, max(0, len(ls[last]) - 1)], [max(1, last // 2), len(ls[max(1, last // 2) - 1])]]
                texts.append({'id': tid, 'source': s, 'filename': '/nonexistent-verif-root/pkg/snip.py', 'cursors': -1 if len(s) < 3000 else ends, 'seed': 0})
                tid += 1
                for ms in rng.sample(mutseqs[1:8], 3):
                    texts.append({'id': tid, 'source': s, 'filename': '/nonexistent-verif-root/pkg/snip.py', 'cursors': 3, 'seed': rng.randrange(1 << 30), 'muts': ms})
                    tid += 1
            # a project with modules that cannot be analysed: syntax error, invalid UTF-8, NUL byte, a module importing itself
            bproj = make_bproj(wd)
            for btext in ('from broken import *\nimport broken\nbroken.x\nfrom broken import y\ny\ny.z\n',
                          'from badutf import *\nimport badutf, nul\nbadutf.x\nnul.x\nfrom nul import x\nx.real\n',
                          'import selfimp\nselfimp.value\nselfimp.value.real\nfrom fine import *\nok\nx\nimport fine\nfine.ok\n'):
                texts.append({'id': tid, 'source': btext, 'filename': os.path.join(bproj, 'main.py'), 'root': bproj, 'cursors': -1, 'seed': 0})
                tid += 1
            texts.append({'id': tid, 'source': 'import selfimp\nselfimp.y;y=1\ny\n', 'filename': os.path.join(bproj, 'selfimp.py'), 'root': bproj,
                          'cursors': -1, 'seed': 0})
            tid += 1
            # the filename argument is optional
            for ntext in ('from . import x\nx\n', 'from .\n', 'from .. import y\nimport os\nos.path\n', 'import os.path\nos.path.join\n'):
                texts.append({'id': tid, 'source': ntext, 'filename': '<none>', 'root': bproj, 'cursors': -1, 'seed': 0})
                tid += 1
            for mi, src in enumerate(scopes.gen_modules(seed * 7 + 2, 600 if thorough else 60)):
                texts.append({'id': tid, 'source': src, 'filename': '/nonexistent-verif-root/s%d.py' % mi, 'cursors': 8, 'seed': rng.randrange(1 << 30)})
                tid += 1
                texts.append({'id': tid, 'source': src, 'filename': '/nonexistent-verif-root/s%d.py' % mi, 'cursors': 2, 'seed': rng.randrange(1 << 30),
                              'muts': rng.choice(mutseqs[1:])})
                tid += 1
            # generated programs
            for c in pybind_common.gen_cases(seed, 400 if thorough else 48, mix={'c03': 0.2}, exec_limit=10):
                texts.append({'id': tid, 'source': c['source'], 'filename': '/nonexistent-verif-root/p%d.py' % c['id'], 'cursors': 10, 'seed': rng.randrange(1 << 30)})
                tid += 1
        n = core.NCPU
        jobs = [{'texts': texts[k::n], 'graphs': graphs[k::n], 'base': os.path.join(wd, 'fs%d' % k)} for k in range(n)]
        jobs = [j for j in jobs if j['texts'] or j['graphs']]
        cases = []
        with ThreadPoolExecutor(max_workers=len(jobs)) as ex:
            for r in ex.map(worker, jobs):
                cases.extend(r)
        for i, c in enumerate(cases):
            c['oid'] = c['id']
            c['id'] = i
        tview = [{'id': c['id'], 'parses': c['parses'], 'e01': c['e01'],
                  'calls': [{k: x[k] for k in ('op', 'marked', 'outcome', 'wellformed', 'ne01', 'e01same')} for x in c['calls']]} for c in cases]
        tl, fails = core.tlc_cases('ApiCheck', 'ApiCheck.cfg', tview, 'C08', workdir=wd, timeout=3000)
        ck.add_tlc(tl)
        ck.evaluations = len(cases)
        ck.traces = sum(len(c['calls']) for c in cases)
        seen = {}
        for f in fails:
            c = cases[f[2]]
            l = f[4][0]
            k = c['calls'][l - 1]
            key = (f[3], k['op'], k['outcome'], (k.get('detail') or '')[:40] if isinstance(k.get('detail'), str) else '')
            cur = seen.get(key)
            size = len(c.get('text') or json.dumps(c.get('files', '')) or 'x' * 100000)
            if cur is None or size < cur[0]:
                seen[key] = (size, f, c, k)
        ck.extra['failing_calls'] = len(fails)
        ck.extra['distinct_failure_kinds'] = len(seen)
        for key, (size, f, c, k) in sorted(seen.items(), key=lambda kv: kv[1][0])[:14]:
            where = c.get('text') if c.get('text') else (c.get('files') or c.get('filename'))
            sig = {'clause': f[3], 'op': k['op'], 'outcome': k['outcome'], 'pos': k['pos'], 'where': where if isinstance(where, (str, dict)) else str(where)}
            payload = {'filename': c.get('filename'), 'text': c.get('text') or '', 'pos': k['pos'], 'muts': c.get('muts'), 'call': k}
            if 'graph' in c:
                payload.update({'graph': c['graph'], 'split': c['split'], 'files': c['files']})
            ck.violation(sig, 'clause %s: %s at %s of %s -> %s %s (plain text parses: %s, marked text parses: %s)' % (
                f[3], k['op'], k['pos'], (c.get('filename') or ('graph ' + json.dumps(c.get('graph')))) + ((' after ' + json.dumps(c['muts'])) if c.get('muts') else ''),
                k['outcome'], json.dumps(k.get('detail'))[:200], c['parses'], k['marked']), payload)
        for c in cases:
            for k in c['calls']:
                if k['op'] != 'lint' and k['marked']:
                    ck.nontrivial.add((c['oid'], k['op'], tuple(k['pos'])))
        ck.extra.update({'texts': len([c for c in cases if 'graph' not in c]), 'definition_graphs_rendered': len([c for c in cases if 'graph' in c]),
                         'calls': ck.traces, 'mutated_texts': len([c for c in cases if c.get('muts')])})
        ck.rule = ('texts = real files (repository + standard-library sample), their typing-state mutations (every sequence of <= 2 of 7 mutations is '
                   'enumerated by TLC; a seeded sample per file), hand-written snippets around special constructs with EVERY cursor position, generated '
                   'programs, and definition graphs over 3 nodes with cycles (all 5832 graphs of Eval.tla model-checked, a sample rendered into 1-4 project '
                   'modules); per text lint + assist/location at seeded cursors (biased to identifier ends and dots); each call under a %d s limit; '
                   'non-trivial = an assist/location call whose marked text parses; distinct by (text, op, cursor)' % c08_worker.LIMIT)
        ck.exhaustive = False
        for c in cases[:1] + cases[-1:]:
            ck.sample({'file': c.get('filename'), 'muts': c.get('muts'), 'graph': c.get('graph'), 'calls': [[k['op'], k['pos'], k['outcome'], k['marked']] for k in c['calls'][:6]]})
        ck.assumptions = ['texts must be encodable as UTF-8 and parse without hitting the recursion limit of ast.parse itself',
                          'cursor positions are (line, col) inside the text with lines split as the tokenizer does',
                          'well-formed = lint: list of tuples (str, str, ..); assist: (str, [str]); location: list of {loc, file} dicts or lists of them; all msgpack-serialisable']
        return ck.finish()
    finally:
        shutil.rmtree(wd, ignore_errors=True)
