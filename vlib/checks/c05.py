"""C05 - names resolve in the scope CPython's compiler assigns them to.

R-spec  spec/Scoping.tla (symbol-table rules; TLC enumerates every legal scope chain) + spec/ScopingCheck.tla (judge)
Reference validation: Owner of Scoping.tla = owner according to CPython's symtable on every rendered chain.
Real files: owner by symtable, alternatives by the real supp.
"""
import glob
import json
import os
import random
import shutil
import sysconfig
from concurrent.futures import ThreadPoolExecutor

from .. import core
from ..gen import scopes


def worker(payload):
    p = core.run_repo_python(['-m', 'vlib.drivers.c05_worker'], inp=json.dumps(payload).encode(), timeout=3000)
    if p.returncode != 0:
        raise core.MachineryFailure('c05 worker failed: %s' % p.stderr.decode(errors='replace')[-2000:])
    return json.loads(p.stdout.decode())


def run(tier, replay=None):
    ck = core.Check('C05', tier)
    seed = core.seed()
    rng = random.Random(seed)
    wd = core.scratch('c05-')
    try:
        thorough = tier == 'thorough'
        if replay:
            data = json.load(open(replay))
            c = data['case']
            payload = {'chains': [[0, c['chain'], c['owners'], c.get('variant', 0)]]} if 'chain' in c else {'files': [[0, c['file']]]}
            cases = worker(payload)
            gen = None
        else:
            cfg = os.path.join(wd, 'gen.cfg')
            open(cfg, 'w').write('SPECIFICATION GenSpec\nCONSTANT MaxDepth = %d\nINVARIANT GenEmit\nCHECK_DEADLOCK FALSE\n' % 3)
            gen = core.tlc('Scoping', cfg, workdir=wd, timeout=3000, xmx='6g')
            if gen.error:
                raise core.MachineryFailure('Scoping.tla failed: %s' % gen.error)
            ck.add_tlc(gen)
            chains = [r for r in gen.records if isinstance(r, dict) and 'chain' in r]
            if len(chains) < 16000:
                raise core.MachineryFailure('Scoping.tla produced %d chains' % len(chains))
            chains.sort(key=lambda r: json.dumps(r, sort_keys=True))
            if not thorough:
                chains = rng.sample(chains, 3000)
            elif len(chains) > 60000:
                chains = rng.sample(chains, 60000)
            # deeper chains than the enumeration reaches: sampled candidates, legality and owners decided by Scoping.tla
            roles = ['none', 'read', 'bind', 'bindread', 'global', 'globalbind', 'globalread', 'globalbindread',
                     'nonlocal', 'nonlocalbind', 'nonlocalread', 'nonlocalbindread']
            cands = []
            for _ in range(120000 if thorough else 9000):
                d = rng.choice([4, 4, 5, 6] if thorough else [4, 4, 4, 5])
                kinds = []
                for i in range(d):
                    prev = kinds[-1] if kinds else 'function'
                    kinds.append(rng.choice(['lambda', 'comp']) if prev in ('lambda', 'comp') else
                                 rng.choices(['function', 'class', 'lambda', 'comp'], weights=[5, 4, 2, 1])[0])
                rl = [rng.choice(roles if k == 'function' else roles[:4]) if rng.random() < 0.75 else 'none' for k in kinds]
                cands.append({'kind': kinds, 'role': rl, 'mrole': rng.choice(roles[:4])})
            cf = os.path.join(wd, 'cands.json')
            json.dump(cands, open(cf, 'w'))
            ev = core.tlc('ScopingEval', 'ScopingEval.cfg', env={'VERIF_CASES': cf}, workdir=wd, timeout=3000, xmx='6g')
            if ev.error:
                raise core.MachineryFailure('ScopingEval.tla failed: %s' % ev.error)
            ck.add_tlc(ev)
            deep = [r for r in ev.records if isinstance(r, dict) and 'chain' in r]
            deep.sort(key=lambda r: json.dumps(r, sort_keys=True))
            if len(deep) < 500:
                raise core.MachineryFailure('ScopingEval.tla kept %d deep chains' % len(deep))
            ck.extra['deep_chains'] = len(deep)
            nshallow = len(chains)
            chains = chains + deep
            files = sorted(glob.glob(os.path.join(core.REPO, 'supp', '*.py')) + glob.glob(os.path.join(core.REPO, 'tests', '*.py')))
            stdlib = sysconfig.get_paths()['stdlib']
            std = sorted(glob.glob(os.path.join(stdlib, '*.py')) + glob.glob(os.path.join(stdlib, '*', '*.py')))
            files += std if thorough else rng.sample(std, 60)
            gdir = os.path.join(wd, 'gen')
            os.makedirs(gdir)
            for mi, src in enumerate(scopes.gen_modules(seed * 17 + 3, 4000 if thorough else 400)):
                f = os.path.join(gdir, 'scopes%d.py' % mi)
                open(f, 'w').write(src)
                files.append(f)
            # a walrus inside (nested) comprehensions binds in the scope the comprehension is written in
            wi = 0
            for depth in (1, 2, 3):
                for outer_binds in (True, False):
                    for mod_binds in (True, False):
                        comp = '(y := v)'
                        for d in range(depth):
                            comp = '[%s for %s in %s]' % (comp, 'v' if d == 0 else 'r%d' % d, 'rows' if d == depth - 1 else 'r%d' % (d + 1))
                        src = ('y = -1\n' if mod_binds else '') + 'def f(rows):\n' + ('    y = 0\n' if outer_binds else '') + \
                              '    def g(rows):\n        out = %s\n        return y, out\n    return g(rows), %s\n' % (comp, 'y' if (outer_binds or mod_binds) else '0')
                        try:
                            compile(src, '<walrus>', 'exec')
                        except SyntaxError:
                            continue
                        fw = os.path.join(gdir, 'walrus%d.py' % wi)
                        wi += 1
                        open(fw, 'w').write(src)
                        files.append(fw)
            n = core.NCPU
            pinned = [[2000000 + i, f['input']] for i, f in enumerate(ck.findings)]
            jobs = [{'chains': [[i, c['chain'], c['owners'], 0 if i % 2 == 0 else 1 + i % 7] for i, c in enumerate(chains)][k::n], 'pinned': pinned if k == 0 else [],
                     'files': [[1000000 + i, f] for i, f in enumerate(files)][k::n]} for k in range(n)]
            cases = []
            with ThreadPoolExecutor(max_workers=n) as ex:
                for r in ex.map(worker, jobs):
                    cases.extend(r)
        illegal = [c for c in cases if 'illegal' in c]
        if illegal:
            raise core.MachineryFailure('Scoping.tla Legal() admits a chain CPython rejects: %s' % json.dumps(illegal[0])[:500])
        errs = [c for c in cases if 'error' in c]
        if errs:
            raise core.MachineryFailure('analysis of a rendered chain raised: %s' % json.dumps(errs[0])[:500])
        skipped = [c for c in cases if 'skipped' in c]
        cases = [c for c in cases if 'reads' in c and c['reads']]
        for i, c in enumerate(cases):
            c['oid'] = c['id']
            c['id'] = i
        tview = [{'id': c['id'], 'reads': [{k: r[k] for k in ('scope', 'spec', 'sym', 'alts', 'skip')} for r in c['reads']], 'norm': c['norm']}
                 for c in cases]
        tl, fails = core.tlc_cases('ScopingCheck', 'ScopingCheck.cfg', tview, 'C05', workdir=wd, timeout=3000)
        ck.add_tlc(tl)
        ck.traces = sum(len(c['reads']) for c in cases)
        ck.evaluations = len(cases)
        ref = [f for f in fails if f[3] == 'REF']
        if ref:
            c = cases[ref[0][2]]
            raise core.MachineryFailure('Scoping.tla disagrees with CPython\'s symtable: %s\n%s' % (json.dumps(ref[0][4]), c.get('source')))
        seen = set()
        for f in sorted(fails, key=lambda f: len(cases[f[2]].get('source', 'x' * 10000))):
            c = cases[f[2]]
            if c.get('pinned'):
                fd = [x for x in ck.findings if x['input'] == c['source']][0]
                ck.known(fd['id'], fd['what'])
                continue
            key = c.get('source') or c.get('file')
            if key in seen:
                continue
            seen.add(key)
            if len(seen) > 10:
                break
            bad = [r for r in c['reads'] if not r['skip'] and any(c['norm'][a] != c['norm'][r['sym']] for a in r['alts'])]
            if c.get('file', '').startswith(wd):
                c['source'] = open(c['file']).read()      # a generated module: keep its text, the scratch file goes away
                c['file'] = 'generated:' + os.path.basename(c['file'])
            sig = {'where': c.get('source') or c.get('file'), 'reads': [[r['name'], r['pos']] for r in bad[:3]]}
            ck.violation(sig, 'read(s) %s of %s resolve to bindings of another scope than the one CPython assigns: %s' % (
                [[r['name'], r['pos']] for r in bad[:3]], c.get('file') or repr(c.get('source')),
                [{'owner': r['sym'], 'supp_alternatives_owners': r['alts']} for r in bad[:3]]),
                {k: c[k] for k in c if k in ('source', 'chain', 'file', 'variant')} | ({'owners': [r['spec'] for r in c['reads']]} if 'chain' in c else {}))
        for c in cases:
            for r in c['reads']:
                if r['sym'] != r['scope']:
                    ck.nontrivial.add((c.get('file', c.get('source')), tuple(r['pos'])))
        ck.extra.update({'chains': len([c for c in cases if 'chain' in c]), 'files': len([c for c in cases if 'file' in c]),
                         'files_skipped': len(skipped), 'reads_compared': ck.traces,
                         'reads_with_unmapped_alternative': sum(1 for c in cases for r in c['reads'] if r.get('partial')),
                         'failing_cases': len({f[2] for f in fails}),
                         'reads_excluded_as_known_finding_pattern': sum(1 for c in cases for r in c['reads'] if r.get('known') and not c.get('pinned'))})
        ck.rule = ('scope chains = every legal chain of Scoping.tla up to depth %d (kinds function/class/lambda/comprehension; per scope the role of x: '
                   'none/read/bind/bindread and, in functions, global / nonlocal declarations with bind/read) %s, rendered to source; plus every '
                   'identifier read of real files (repository + standard library%s); owner by CPython symtable; non-trivial = a read whose owner is '
                   'not the innermost scope; distinct by (source, position)' % (4 if thorough else 3, 'sampled to 60000' if thorough else 'sampled to 3000',
                                                                              '' if thorough else ' sample'))
        ck.exhaustive = False
        for c in cases[:2] + cases[-1:]:
            ck.sample({'source': c.get('source'), 'file': c.get('file'), 'reads': c['reads'][:4]})
        ck.assumptions = ['comprehension targets are compared as bindings of the enclosing scope', 'class-body reads of names the class binds are not compared',
                          'the scope a binding takes effect in is computed by the reference (global / nonlocal), not read from supp',
                          'reads in scopes symtable cannot identify uniquely (two lambdas on one line) are skipped']
        return ck.finish()
    finally:
        shutil.rmtree(wd, ignore_errors=True)
