"""C10 - unused-name diagnostics follow the exemption rules exactly.

R-spec  spec/LintRules.tla (decision table; TLC enumerates every legal row) + spec/LintCheck.tla (judge)
Each row is rendered into a module and linted by the real supp; real files contribute every binding whose identifier
has no read occurrence in the file, classified by the same table.
"""
import glob
import json
import os
import random
import shutil
import sysconfig
from concurrent.futures import ThreadPoolExecutor

from .. import core


def worker(payload):
    p = core.run_repo_python(['-m', 'vlib.drivers.c10_worker'], inp=json.dumps(payload).encode(), timeout=3000)
    if p.returncode != 0:
        raise core.MachineryFailure('c10 worker failed: %s' % p.stderr.decode(errors='replace')[-2000:])
    return json.loads(p.stdout.decode())


def run(tier, replay=None):
    ck = core.Check('C10', tier)
    seed = core.seed()
    rng = random.Random(seed)
    wd = core.scratch('c10-')
    try:
        thorough = tier == 'thorough'
        gen = core.tlc('LintRules', 'LintRulesGen.cfg', workdir=wd)
        if gen.error or gen.invariant:
            raise core.MachineryFailure('LintRules.tla failed: %s' % (gen.error or gen.invariant))
        ck.add_tlc(gen)
        rows = [r for r in gen.records if isinstance(r, dict) and 'row' in r]
        if len(rows) < 250:
            raise core.MachineryFailure('LintRules produced %d rows' % len(rows))
        rows.sort(key=lambda r: json.dumps(r, sort_keys=True))
        if replay:
            data = json.load(open(replay))
            c = data['case']
            payload = {'rows': [[0, c['row'], c['expected']]]} if 'source' in c else {'files': [[0, c['file']]]}
            cases = [x for x in worker(payload) if 'skip' not in x]
            if 'file' in c:
                cases = [x for x in cases if x['name'] == c['name']]
        else:
            files = sorted(glob.glob(os.path.join(core.REPO, 'supp', '*.py')) + glob.glob(os.path.join(core.REPO, 'tests', '*.py')))
            std = sorted(glob.glob(os.path.join(sysconfig.get_paths()['stdlib'], '*.py')) +
                         glob.glob(os.path.join(sysconfig.get_paths()['stdlib'], '*', '*.py')))
            files += rng.sample(std, 400 if thorough else 40)
            n = core.NCPU
            jobs = [{'rows': [[i, r['row'], r['expected']] for i, r in enumerate(rows)][k::n],
                     'files': [[1000 + i, f] for i, f in enumerate(files)][k::n]} for k in range(n)]
            cases = []
            with ThreadPoolExecutor(max_workers=n) as ex:
                for r in ex.map(worker, jobs):
                    cases.extend(r)
        skipped = [c for c in cases if 'skip' in c]
        rowskip = [c for c in skipped if 'source' in c]
        if rowskip:
            raise core.MachineryFailure('a decision-table row was rendered into invalid Python: %s' % json.dumps(rowskip[0])[:400])
        cases = [c for c in cases if 'skip' not in c]
        tview = [{k: c[k] for k in ('id', 'expected', 'name', 'pos', 'reports', 'others')} for c in cases]
        tl, fails = core.tlc_cases('LintCheck', 'LintCheck.cfg', tview, 'C10', workdir=wd)
        ck.add_tlc(tl)
        ck.traces = ck.evaluations = len(cases)
        byid = {c['id']: c for c in cases}
        seen = set()
        for f in fails:
            c = byid[f[2]]
            key = (f[3], json.dumps(c['row'], sort_keys=True))
            if key in seen:
                continue
            seen.add(key)
            if len(seen) > 12:
                break
            where = c.get('source') or ('%s: %s at %s' % (c.get('file'), c['name'], c['pos']))
            sig = {'clause': f[3], 'row': c['row'], 'where': where if 'source' in c else [c.get('file'), c['name'], c['pos']]}
            ck.violation(sig, 'clause %s: binding %r (%s) expected %s, supp reported %s' % (
                f[3], c['name'], json.dumps(c['row']), c['expected'], json.dumps(c['reports'])[:300]), c)
        for c in cases:
            if c['expected'] != ('W01' if c['row'].get('scope') in ('function', 'method', 'nested', 'lambda') else 'none') or 'source' in c:
                ck.nontrivial.add((c.get('file', 'row'), c['name'], json.dumps(c['row'], sort_keys=True)))
        ck.extra.update({'decision_table_rows': len(rows), 'real_file_bindings': len([c for c in cases if 'file' in c]),
                         'files_skipped': len(skipped), 'failing_cases': len({f[2] for f in fails})})
        ck.rule = ('rows = every legal (binding kind x scope kind x identifier shape) of LintRules.tla, enumerated by TLC and rendered into one '
                   'module each; plus every binding of real files (repository + a sample of the standard library) whose identifier has no read, '
                   'augmented-assignment, del, global/nonlocal or __all__ occurrence in the file, classified by the same table; non-trivial = a '
                   'table row, or a real binding whose expectation differs from the default of its scope kind; distinct by (file/row, identifier)')
        ck.exhaustive = False
        for c in cases[:2] + cases[-1:]:
            ck.sample({k: c.get(k) for k in ('row', 'expected', 'name', 'pos', 'reports', 'source', 'file')})
        ck.assumptions = ['never-read identifiers with several bindings in one real file are not judged individually',
                          'parameters of a lambda written directly in a class body are not judged (ambiguous in the property)']
        return ck.finish()
    finally:
        shutil.rmtree(wd, ignore_errors=True)
