"""C17 - deterministic output.

M-spec  spec/AltOrder.tla     how alternatives are ordered (pinned: any enumeration of a set; repaired: sorted by position)
R-spec  spec/Determinism.tla  trace specification: every run of a request gives the same text; alternatives in source order
Requests come from the C01 program generator (reads with several reaching definitions), a generated project with
conditionally defined names reached through imports, and the repository's own files; each is answered twice in N fresh
interpreter processes with different PYTHONHASHSEED and different amounts of prior allocation.
"""
import glob
import hashlib
import json
import os
import random
import shutil
from concurrent.futures import ThreadPoolExecutor

from .. import core
from . import pybind_common
from ..gen import scopes

COND = '''import sys
if sys.argv:
    def pick(a):
        return a
elif sys.path:
    def pick(b):
        return b
elif sys.flags:
    pick = len
else:
    class pick(object):
        attr = 1
try:
    import json as codec
except ImportError:
    codec = None
for item in sys.argv:
    last = item
else:
    last = None
'''
MULTI = '''import sys
class Alpha(object):
    shared = 1
    def run(self):
        self.state = 1
    def stop(self):
        self.state = 2
        self.extra = 3
class Beta(object):
    shared = 2
    def run(self):
        self.state = 4
class Gamma(Alpha):
    def run(self):
        self.state = 5
        self.Extra = 6
class Delta(Alpha, Beta):
    pass
class Eps(Beta, Alpha):
    pass
class Zeta(Beta, Gamma):
    pass
class Theta(object):
    def load(self):
        try:
            self.mode = 1
        except ValueError:
            self.mode = 2
        except KeyError:
            self.mode = 3
        else:
            self.mode = 4
        finally:
            self.last = 5
Config = 1
config = 2
Handler = 3
handler = 4
if sys.argv:
    obj = Alpha()
elif sys.path:
    obj = Beta()
else:
    obj = Gamma()
try:
    worker = Beta()
except Exception:
    worker = Alpha()
def view(request, Request):
    for RETRY in sys.argv:
        retry = RETRY
    else:
        Retry = None
    return retry
obj.run
obj.shared
obj.state
worker.run
worker.state
Delta.shared
Delta().run
Delta().state
Eps.shared
Eps().run
Eps().state
Zeta.shared
Zeta().run
Zeta().state
Theta().mode
Theta().last
'''
USER = '''from cond import pick, codec, last
import cond
pick
cond.pick
codec
last
cond.last
'''


# a project module named like a standard-library module that half of the processes have imported before the first request
SHADOW = 'def project_marker():\n    return 1\nPROJECT_CONST = 2\n'


def run_proc(requests, hashseed, prealloc, sources, preimport=()):
    p = core.run_repo_python(['-m', 'vlib.drivers.c17_worker'],
                             inp=json.dumps({'requests': requests, 'prealloc': prealloc, 'sources': sources, 'preimport': list(preimport)}).encode(),
                             env={'PYTHONHASHSEED': str(hashseed)}, timeout=3000)
    if p.returncode != 0:
        raise core.MachineryFailure('c17 worker failed: %s' % p.stderr.decode(errors='replace')[-2000:])
    return json.loads(p.stdout.decode())


def run(tier, replay=None):
    ck = core.Check('C17', tier)
    seed = core.seed()
    rng = random.Random(seed)
    wd = core.scratch('c17-')
    try:
        thorough = tier == 'thorough'
        nproc = 16 if thorough else 8
        # M-spec
        r_fix = core.tlc('AltOrder', 'AltOrder_fixed.cfg', workdir=wd)
        r_pin = core.tlc('AltOrder', 'AltOrder_pinned.cfg', workdir=wd)
        if r_fix.error or r_fix.invariant:
            raise core.MachineryFailure('AltOrder.tla (repaired mechanism) fails: %s' % (r_fix.error or r_fix.invariant))
        if r_pin.invariant != 'Deterministic':
            raise core.MachineryFailure('vacuity guard: AltOrder.tla pinned mechanism no longer violates Deterministic')
        ck.add_tlc([r_fix, r_pin])
        requests = []
        sites = {}
        if replay:
            data = json.load(open(replay))
            requests = [dict(data['case']['request'], id='r0')]
            sites = {'r0': data['case'].get('sites')}
            projdir = None
        else:
            # 1. generated programs: reads with several reaching definitions
            progs = pybind_common.gen_cases(seed, 1500 if thorough else 160, mix={'c03': 0.3}, exec_limit=50)
            for c in progs:
                fname = '/nonexistent-verif-root/p%d.py' % c['id']
                bpos = {}
                for s, (ln, nm) in c['site_pos'].items():
                    bpos.setdefault((ln, nm), []).append(int(s))
                multi = [o for o in c['rd'] if len([a for a in o['alts'] if a > 0]) >= 2]
                if not multi:
                    continue
                rid = 'g%d' % c['id']
                requests.append({'id': rid + '-lint', 'kind': 'lint', 'source': c['source'], 'filename': fname, 'pos': [0, 0]})
                requests.append({'id': rid + '-alts', 'kind': 'alts', 'source': c['source'], 'filename': fname, 'pos': [0, 0]})
                for o in rng.sample(multi, min(3 if not thorough else 6, len(multi))):
                    ln, col, nm = c['read_pos'][str(o['id'])]
                    q = {'id': '%s-loc%d' % (rid, o['id']), 'kind': 'location', 'source': c['source'], 'filename': fname,
                         'pos': [ln, col + 1 if len(nm) > 1 else col + len(nm)], 'name': nm}
                    requests.append(q)
                    sites[q['id']] = {'%d,%s' % (k[0], k[1]): v for k, v in bpos.items()}
            for mi, src in enumerate(scopes.gen_modules(seed * 11 + 4, 600 if thorough else 60)):
                fname = '/nonexistent-verif-root/s%d.py' % mi
                requests.append({'id': 's%d-lint' % mi, 'kind': 'lint', 'source': src, 'filename': fname, 'pos': [0, 0]})
                requests.append({'id': 's%d-alts' % mi, 'kind': 'alts', 'source': src, 'filename': fname, 'pos': [0, 0]})
            # 2. a project with conditionally defined names reached through imports
            projdir = os.path.join(wd, 'proj')
            os.makedirs(projdir)
            open(os.path.join(projdir, 'cond.py'), 'w').write(COND)
            ufile = os.path.join(projdir, 'user.py')
            for i, line in enumerate(USER.split('\n')[2:-1], 3):
                requests.append({'id': 'p-loc%d' % i, 'kind': 'location', 'source': USER, 'filename': ufile, 'pos': [i, len(line) - 1]})
                requests.append({'id': 'p-asst%d' % i, 'kind': 'assist', 'source': USER + line + '.', 'filename': ufile,
                                 'pos': [len(USER.split('\n')), len(line) + 1]})
            requests.append({'id': 'p-lint', 'kind': 'lint', 'source': USER, 'filename': ufile, 'pos': [0, 0]})
            mfile = os.path.join(projdir, 'multi.py')
            open(mfile, 'w').write(MULTI)
            mlines = MULTI.split('\n')
            for i, line in enumerate(mlines, 1):
                if line in ('obj.run', 'obj.shared', 'obj.state', 'worker.run', 'worker.state') or line.startswith(('Delta', 'Eps', 'Zeta', 'Theta')) and '.' in line and not line.startswith('class'):
                    requests.append({'id': 'm-loc%d' % i, 'kind': 'location', 'source': MULTI, 'filename': mfile, 'pos': [i, len(line) - 1]})
            nl = len(mlines)          # MULTI ends with a newline: the appended line is line number nl
            for k, tail in enumerate(('obj.x', 'worker.x', 'conf', 'hand')):
                col = len(tail) - 1 if tail.endswith('.x') else len(tail)
                requests.append({'id': 'm-asst%d' % k, 'kind': 'assist', 'source': MULTI + tail + '\n', 'filename': mfile, 'pos': [nl, col]})
            # the members of a plain project module after `from module import `
            for k, mod in enumerate(('multi', 'cond')):
                text = 'from %s import ' % mod
                requests.append({'id': 'p-from%d' % k, 'kind': 'assist', 'source': text, 'filename': ufile, 'pos': [1, len(text)]})
            fnsrc = MULTI.replace('    return retry', '    return retr')
            fl = [i for i, l in enumerate(fnsrc.split('\n'), 1) if l == '    return retr'][0]
            requests.append({'id': 'm-asst-fn', 'kind': 'assist', 'source': fnsrc, 'filename': mfile, 'pos': [fl, 15]})
            requests.append({'id': 'm-alts', 'kind': 'alts', 'source': MULTI, 'filename': mfile, 'pos': [0, 0]})
            requests.append({'id': 'm-lint', 'kind': 'lint', 'source': MULTI, 'filename': mfile, 'pos': [0, 0]})
            cfile = os.path.join(projdir, 'cond.py')
            requests.append({'id': 'p-alts', 'kind': 'alts', 'source': COND, 'filename': cfile, 'pos': [0, 0]})
            open(os.path.join(projdir, 'colorsys.py'), 'w').write(SHADOW)
            for k, (text, pos) in enumerate((('import colorsys\ncolorsys.\n', [2, 9]), ('import colorsys\ncolorsys.project_marker\n', [2, 15]),
                                            ('from colorsys import \n', [1, 21]))):
                requests.append({'id': 'p-shadow%d' % k, 'kind': 'location' if k == 1 else 'assist', 'source': text, 'filename': ufile, 'pos': pos})
            # module-name completion before and after a request that looks inside builtin modules no interpreter loads at start-up
            for k, (text, pos) in enumerate((('import _sy\n', [1, 10]), ('import faul\n', [1, 11]), ('import _symtable, faulthandler\n_symtable.\n', [2, 10]),
                                            ('import faulthandler\nfaulthandler.dump\n', [2, 17]), ('from _sy', [1, 8]))):
                requests.append({'id': 'p-modnames%d' % k, 'kind': 'assist', 'source': text, 'filename': ufile, 'pos': pos})
            # 3. the repository's own files: reads with several alternatives
            files = sorted(glob.glob(os.path.join(core.REPO, 'supp', '*.py')) + glob.glob(os.path.join(core.REPO, 'tests', '*.py')))
            disc = [{'id': 'd%d' % i, 'kind': 'discover', 'source': open(f).read(), 'filename': f, 'pos': [0, 0]} for i, f in enumerate(files)]
            found = run_proc(disc, 0, 0, [core.REPO])
            for i, f in enumerate(files):
                v = found.get('d%d/0' % i)
                if not v or v[0] != 'ok':
                    continue
                src = disc[i]['source']
                requests.append({'id': 'f%d-alts' % i, 'kind': 'alts', 'source': src, 'filename': f, 'pos': [0, 0]})
                pts = v[1]
                rng.shuffle(pts)
                for ln, col, nm, k in pts[:(12 if thorough else 3)]:
                    requests.append({'id': 'f%d-loc-%d-%d' % (i, ln, col), 'kind': 'location', 'source': src, 'filename': f,
                                     'pos': [ln, col + 1 if len(nm) > 1 else col + len(nm)]})
        sources = [projdir, core.REPO] if projdir else ['/nonexistent-verif-root']
        configs = [(rng.randrange(1, 2 ** 31), rng.choice([0, 10, 333, 1000, 7777, 50000, 200000])) for _ in range(nproc)]
        configs[0] = (0, 0)
        with ThreadPoolExecutor(max_workers=min(core.NCPU, nproc)) as ex:
            outs = list(ex.map(lambda ic: run_proc(requests, ic[1][0], ic[1][1], sources, ['colorsys'] if ic[0] % 2 else []), enumerate(configs)))
        cases = []
        byid = {}
        for q in requests:
            texts = []
            for o in outs:
                for rep in (0, 1):
                    texts.append(json.dumps(o.get('%s/%d' % (q['id'], rep)), sort_keys=True))
            digests = [hashlib.sha1(t.encode()).hexdigest()[:12] for t in texts]
            first = json.loads(texts[0])
            if q['id'].startswith(('m-', 'p-')) and first and first[0] == 'exc' and not replay:
                raise core.MachineryFailure('request %s of the generated project raises %s: the C17 project text is broken' % (q['id'], first[1:]))
            alts = []
            nalts = 0
            if first and first[0] == 'ok':
                if q['kind'] == 'location':
                    smap = sites.get(q['id'])
                    for e in first[1]:
                        if isinstance(e, list):
                            nalts = max(nalts, len(e))
                            if smap is not None:
                                seq = []
                                for a in e:
                                    c = smap.get('%d,%s' % (a['loc'][0], q.get('name', '')), [])
                                    # several binding sites of one name on one line: order within the line by column
                                    seq.append(a['loc'][0] * 1000 + a['loc'][1])
                                alts.append(seq)
                            else:
                                alts.append([a['loc'][0] * 1000 + a['loc'][1] for a in e if a.get('file') == q['filename']])
                elif q['kind'] == 'alts':
                    for pos, al in first[1]:
                        seq = [0 if a == 'undef' else a[0] * 1000 + a[1] for a in al]
                        nalts = max(nalts, len(seq))
                        alts.append(seq)
            case = {'id': len(cases), 'runs': digests, 'alts': alts, 'nalts': nalts}
            byid[len(cases)] = (q, texts)
            cases.append(case)
            ck.evaluations += 1
            if nalts >= 3:
                ck.nontrivial.add(q['id'])
        tl, fails = core.tlc_cases('Determinism', 'Determinism.cfg', cases, 'C17', workdir=wd)
        ck.add_tlc(tl)
        ck.traces = len(cases) * nproc * 2
        seen = set()
        for f in sorted(fails, key=lambda f: len(byid[f[2]][0]['source'])):
            q, texts = byid[f[2]]
            key = (f[3], q['kind'])
            if key in seen and len(ck.violations) >= 6:
                continue
            seen.add(key)
            distinct = sorted(set(texts))
            sig = {'clause': f[3], 'kind': q['kind'], 'source': q['source'], 'pos': q['pos']}
            ck.violation(sig, 'clause %s: %s request at %s gave %d different answers over %d runs / or alternatives out of source order: %s' % (
                f[3], q['kind'], q['pos'], len(distinct), len(texts), ' | '.join(d[:160] for d in distinct[:3])),
                {'request': q, 'sites': sites.get(q['id']), 'answers': distinct[:4]})
        ck.extra['failing_requests'] = len({f[2] for f in fails})
        ck.extra['processes'] = [{'PYTHONHASHSEED': c[0], 'prealloc': c[1]} for c in configs]
        ck.rule = ('requests = lint / location / internal alternative lists for generated programs with reads that have >= 2 reaching '
                   'definitions, a generated project with conditionally defined names reached through imports, and the repository\'s own '
                   'files; each answered twice in %d fresh processes (different PYTHONHASHSEED, prior allocation 0..200000 objects); '
                   'non-trivial = an answer with >= 3 alternatives; distinct by request' % nproc)
        ck.exhaustive = False
        for i in (0, len(cases) // 2, len(cases) - 1):
            if i in byid:
                q, texts = byid[i]
                ck.sample({'kind': q['kind'], 'pos': q['pos'], 'file': q['filename'], 'answer': texts[0][:300], 'runs': len(texts)})
        ck.assumptions = ['binding sites are ordered by (line, column)', 'alternatives from other files are not order-checked']
        return ck.finish()
    finally:
        shutil.rmtree(wd, ignore_errors=True)
