"""C09 - a long-lived project answers exactly like a fresh one.

M-spec  spec/ProjectCache.tla  (module cache, mtime validation, memoised import resolution,
                                star-import snapshots; pinned and repaired mechanism)
R-spec  spec/CacheTrace.tla    (trace specification: long-lived reply = fresh reply)
Binding: histories are behaviours of ProjectCache.tla (edge cover of the dumped graph,
-simulate behaviours); each is replayed on the real file system against one long-lived
Project and a fresh Project per request; model-predicted markers and cache contents are
compared after every request (drift), the records are validated against CacheTrace.tla.
"""
import json
import os
import random
import shutil
from concurrent.futures import ThreadPoolExecutor

from .. import core, tlaval


def cfg_text(maxver, maxops, fixed, invariants=True):
    inv = 'INVARIANT Transparent\nINVARIANT FreshIsIdeal\nINVARIANT CleanAfterRequest\n' if invariants else ''
    return ('SPECIFICATION Spec\nCONSTANTS\n  MaxVer = %d\n  MaxOps = %d\n  Fixed = %s\n  LinkKinds = {"import", "star"}\n%s'
            'CHECK_DEADLOCK FALSE\n' % (maxver, maxops, 'TRUE' if fixed else 'FALSE', inv))


def write(wd, name, text):
    p = os.path.join(wd, name)
    with open(p, 'w') as fd:
        fd.write(text)
    return p


def op_of(act, args):
    if act == 'Request':
        return ['request']
    return [act.lower(), args[0]]


def expect_of(st):
    if st['last']['op'] != 'request':
        return None
    cache = {}
    for i, cid in enumerate(st['cache'], 1):
        if cid:
            cache[i] = st['objs'][cid - 1]['ver']
    return {'markers': sorted([list(p) for p in st['last']['markers']]), 'cache': cache}


def jobs_from_paths(g, paths, rng):
    jobs = []
    for root, path in paths:
        st0 = g.get(root)
        ops = [op_of(a, args) for a, args, _ in path]
        if not any(o[0] == 'request' for o in ops):
            continue
        expect = [expect_of(g.get(n)) for _, _, n in path]
        jobs.append(mkjob(st0, ops, expect, rng))
    return jobs


def mkjob(st0, ops, expect, rng):
    lk = list(st0['lk'])
    # the model's "import" stands for both `import m` and `from m import name`
    # (in the package layout also `from pk import m`: the submodule as an attribute of its package)
    layout = rng.choice(['flat', 'pkg'])
    forms = ['import', 'from'] + (['frompkg', 'frompkg'] if layout == 'pkg' else [])
    lk = [(rng.choice(forms) if k == 'import' else k) for k in lk]
    return {'id': 0, 'lk': lk, 'disk0': list(st0['disk']), 'ops': ops, 'expect': expect, 'layout': layout}


def jobs_from_sim(files, rng):
    jobs = []
    for f in files:
        tr = tlaval.read_sim_trace(f)
        if len(tr) < 2:
            continue
        st0 = tr[0][1]
        ops, expect = [], []
        for act, st in tr[1:]:
            if act == 'Request':
                ops.append(['request'])
            else:
                ops.append([st['last']['op'], st['last']['m']])
            expect.append(expect_of(st))
        if any(o[0] == 'request' for o in ops):
            jobs.append(mkjob(st0, ops, expect, rng))
    return jobs


def run_workers(jobs, wd, nworkers=None):
    nworkers = nworkers or core.NCPU
    chunks = [jobs[i::nworkers] for i in range(nworkers)]
    chunks = [c for c in chunks if c]

    def one(ic):
        i, chunk = ic
        root = os.path.join(wd, 'fs%d' % i)
        p = core.run_repo_python(['-m', 'vlib.drivers.c09_worker'],
                                 inp=json.dumps({'jobs': chunk, 'root': root}).encode(), timeout=3000)
        if p.returncode != 0:
            raise core.MachineryFailure('c09 worker failed: %s' % p.stderr.decode(errors='replace')[-2000:])
        return json.loads(p.stdout.decode())
    out = []
    with ThreadPoolExecutor(max_workers=len(chunks) or 1) as ex:
        for r in ex.map(one, enumerate(chunks)):
            out.extend(r)
    return out


def nontrivial(ops):
    """an edit between two requests"""
    seen_req = False
    edit_after = False
    for o in ops:
        if o[0] == 'request':
            if seen_req and edit_after:
                return True
            seen_req = True
        elif seen_req:
            edit_after = True
    return False


def history_sig(job, upto=None):
    ops = job['ops'] if upto is None else job['ops'][:upto]
    sig = {'lk': job['lk'], 'disk0': job['disk0'], 'layout': job['layout'], 'ops': ops}
    if job.get('back'):
        sig['back'] = job['back']
    if job.get('pad'):
        sig['pad'] = True
    return sig


def run(tier, replay=None):
    ck = core.Check('C09', tier)
    rng = random.Random(core.seed())
    wd = core.scratch('c09-')
    try:
        if replay:
            data = json.load(open(replay))
            job = dict(data['case'], id=0)
            job.pop('expect', None)
            res = run_workers([job], wd, 1)
            for e in res[0]['events']:
                print('  ', json.dumps(e)[:400])
            cases = [{'id': 0, 'disk0': job['disk0'], 'events': res[0]['events'], 'cyclic': bool(job.get('back'))}]
            tl, fails = core.tlc_cases('CacheTrace', 'CacheTrace.cfg', cases, 'C09', workdir=wd, nshards=1)
            ck.add_tlc(tl)
            ck.traces = ck.evaluations = 1
            for f in fails:
                ck.violation(data.get('signature'), 'replay: long-lived project differs from a fresh one at event %s' % f[4], job)
            ck.sample(job)
            return ck.finish()
        thorough = tier == 'thorough'
        # VERIF_C09_MODEL=pinned replays behaviours of the *pinned* mechanism (used to validate the
        # M-spec against the tree before the repair); verdicts come from CacheTrace.tla either way
        fixed_model = os.environ.get('VERIF_C09_MODEL', 'fixed') != 'pinned'
        c_mc = write(wd, 'mc.cfg', cfg_text(3, 6 if thorough else 5, True))
        c_pin = write(wd, 'pin.cfg', cfg_text(2, 4, False))
        c_dot = write(wd, 'dot.cfg', cfg_text(3 if thorough else 2, 5 if thorough else 4, fixed_model, invariants=False))
        c_sim = write(wd, 'sim.cfg', cfg_text(9, 30, fixed_model, invariants=False))
        dot = os.path.join(wd, 'pc.dot')
        simdir = os.path.join(wd, 'sim')
        os.makedirs(simdir)
        nsim = 3000 if thorough else 250
        with ThreadPoolExecutor(max_workers=4) as ex:
            f_mc = ex.submit(core.tlc, 'ProjectCache', c_mc, None, wd)
            f_pin = ex.submit(core.tlc, 'ProjectCache', c_pin, None, wd)
            f_dot = ex.submit(lambda: core.tlc('ProjectCache', c_dot, workdir=wd, extra=['-dump', 'dot,actionlabels', dot]))
            f_sim = ex.submit(lambda: core.tlc('ProjectCache', c_sim, workdir=wd, simulate='file=%s/tr,num=%d' % (simdir, nsim),
                                               depth=31, tseed=core.seed() + 3))
            r_mc, r_pin, r_dot, r_sim = f_mc.result(), f_pin.result(), f_dot.result(), f_sim.result()
        for r in (r_mc, r_dot, r_sim):
            if r.error:
                raise core.MachineryFailure('TLC error on ProjectCache.tla: %s\n%s' % (r.error, r.out[-1500:]))
        if r_mc.invariant:
            raise core.MachineryFailure('ProjectCache.tla (repaired mechanism) violates %s\n%s' % (r_mc.invariant, r_mc.out[-3000:]))
        if r_pin.invariant != 'Transparent':
            raise core.MachineryFailure('vacuity guard: the pinned mechanism (Fixed=FALSE) no longer violates Transparent')
        ck.add_tlc([r_mc, r_pin, r_dot])
        g = tlaval.read_dot(dot)
        os.unlink(dot)
        paths, ncov = tlaval.edge_cover(g, rng, max_paths=(40000 if thorough else 4000))
        jobs = jobs_from_paths(g, paths, rng)
        nedges = g.nedges
        del g
        simfiles = sorted(os.path.join(simdir, f) for f in os.listdir(simdir))
        jobs += jobs_from_sim(simfiles, rng)
        shutil.rmtree(simdir, ignore_errors=True)
        # import cycles (md star-imports mb): outside the mechanism model (no expectation, no drift), judged by CacheTrace.tla only
        cyc = []
        for j in jobs:
            if 'star' in j['lk'] and rng.random() < 0.25:
                j2 = dict(j)
                # 1: the last module star-imports the first (first line); 2: the middle module star-imports the first AFTER its
                # own import of the last one, and the long-lived project is entered through the middle module first
                j2['back'] = rng.choice([1, 1, 2])
                j2.pop('expect', None)
                cyc.append(j2)
        jobs += cyc
        ck.extra['histories_with_import_cycle'] = len(cyc)
        for i, j in enumerate(jobs):
            j['id'] = i
            if i % 3 == 1:
                j['pad'] = True      # all versions of a module have the same size on disk
        results = run_workers(jobs, wd)
        byid = {r['id']: r for r in results}
        cases = []
        drift_sample = None
        nreq = 0
        for j in jobs:
            r = byid[j['id']]
            cases.append({'id': j['id'], 'disk0': j['disk0'], 'events': r['events'], 'cyclic': bool(j.get('back'))})
            ck.evaluations += 1
            nreq += sum(1 for e in r['events'] if e['op'] == 'request')
            if nontrivial(j['ops']):
                ck.nontrivial.add(json.dumps(history_sig(j), sort_keys=True))
            ck.drift += r['ndrift']
            if r['ndrift'] and drift_sample is None:
                drift_sample = {'history': history_sig(j), 'drift': r['drift']}
        tl, fails = core.tlc_cases('CacheTrace', 'CacheTrace.cfg', cases, 'C09', workdir=wd)
        ck.add_tlc(tl)
        ck.traces = len(cases)
        # report the shortest failing histories, one per (link kinds, failing-op shape)
        failing = {}
        for f in fails:
            failing.setdefault(f[2], f[4])
        ck.extra['failing_histories'] = len(failing)
        shapes = {}
        for cid, l in failing.items():
            j = jobs[cid]
            # events are 1-based and parallel to ops
            ops = j['ops'][:l]
            key = (tuple(j['lk']), tuple(o[0] for o in ops[-3:]))
            if key not in shapes or len(ops) < len(shapes[key][1]):
                shapes[key] = (cid, ops)
        for key, (cid, ops) in sorted(shapes.items(), key=lambda kv: len(kv[1][1]))[:10]:
            j = jobs[cid]
            ev = byid[cid]['events'][len(ops) - 1]
            sig = history_sig(j, len(ops))
            ck.violation(sig, 'a long-lived Project answers differently from a fresh one after the history %s (links %s): %s' % (
                json.dumps(ops), j['lk'], json.dumps(ev.get('diff'))[:500]), dict(sig, event=ev))
        ck.rule = ('histories = behaviours of ProjectCache.tla over the chain main->mb->mc->md (edge cover of the dumped graph with '
                   '%s disk operations/requests, -simulate behaviours of length 30), link kinds import / from-import / from-package-import-submodule / star, flat and package '
                   'layout; non-trivial = at least one disk operation between two requests; distinct by (links, layout, initial disk, operations)'
                   % ('<= 5' if thorough else '<= 4'))
        ck.exhaustive = False
        ck.extra.update({'graph_edges': nedges, 'graph_edges_covered': ncov, 'requests_compared': nreq,
                         'simulated_histories': len(simfiles), 'drift_sample': drift_sample})
        for j in jobs[:1] + jobs[-1:]:
            ck.sample({'history': history_sig(j, 12), 'events': byid[j['id']]['events'][:12]})
        ck.assumptions = ['every disk operation changes the mtime (set explicitly, strictly increasing)',
                          'no deletion, no removal of __init__.py, no shadowing from an earlier root (property domain)']
        return ck.finish()
    finally:
        shutil.rmtree(wd, ignore_errors=True)
