"""C15 - remote calls are transparent and failures are isolated.

M-spec  spec/Rpc.tla       client/server message loop, request classes (TLC exhaustive)
R-spec  spec/RpcTrace.tla  trace specification judging histories of a real server subprocess
Binding: request-class sequences are TLC behaviours of Rpc.tla (edge cover of the dumped
graph, -simulate behaviours); each is instantiated with concrete payloads and sent through
the real Environment to a real server process, and in-process to the API; the model's
predicted outcome per request is compared with the real one (drift), the records are
validated by TLC against RpcTrace.tla.
"""
import json
import os
import random
import shutil
from concurrent.futures import ThreadPoolExecutor

from .. import core, tlaval
from ..drivers import c15_worker


def cfg_text(maxlen, fatal=False, invariants=True):
    names = ['Paired', 'Transparent', 'Alive', 'NoHang', 'TypeOK'] if not fatal else ['AliveStrict', 'NoHangStrict']
    inv = '\n'.join('INVARIANT ' + i for i in names) if invariants else ''
    return 'SPECIFICATION Spec\nCONSTANTS\n  MaxLen = %d\n  AllowFatal = %s\n%s\nCHECK_DEADLOCK FALSE\n' % (
        maxlen, 'TRUE' if fatal else 'FALSE', inv)


def write(wd, name, text):
    p = os.path.join(wd, name)
    with open(p, 'w') as fd:
        fd.write(text)
    return p


def seq_of_path(g, root, path):
    """project a behaviour of Rpc.tla onto (request classes, predicted outcomes)"""
    last = g.get(path[-1][2]) if path else g.get(root)
    reqs = list(last['reqs'])
    replies = [r[1] for r in last['replies']]
    return reqs, replies


def run_workers(jobs, projdir, nworkers=None):
    nworkers = nworkers or core.NCPU
    chunks = [jobs[i::nworkers] for i in range(nworkers)]
    chunks = [c for c in chunks if c]

    def one(chunk):
        p = core.run_repo_python(['-m', 'vlib.drivers.c15_worker'],
                                 inp=json.dumps({'jobs': chunk, 'projdir': projdir}).encode(), timeout=3000,
                                 env={'SUPP_LOG_LEVEL': '60'})
        if p.returncode != 0:
            raise core.MachineryFailure('c15 worker failed: %s' % p.stderr.decode(errors='replace')[-2000:])
        return json.loads(p.stdout.decode())
    out = []
    with ThreadPoolExecutor(max_workers=len(chunks) or 1) as ex:
        for r in ex.map(one, chunks):
            out.extend(r)
    return out


def make_project(wd):
    projdir = os.path.join(wd, 'proj')
    for rel, text in c15_worker.PROJECT.items():
        p = os.path.join(projdir, rel)
        os.makedirs(os.path.dirname(p), exist_ok=True)
        with open(p, 'w') as fd:
            fd.write(text)
    return projdir


FAULTS = {'cfgbad', 'evalexc', 'unknown', 'badargs', 'unser', 'raises'}
OKS = {'cfg', 'api', 'eval'}


def nontrivial(seq):
    """a fault followed later by an ok-class request"""
    for i, c in enumerate(seq):
        if c in FAULTS and any(d in OKS for d in seq[i + 1:]):
            return True
    return False


def run(tier, replay=None):
    ck = core.Check('C15', tier)
    rng = random.Random(core.seed())
    wd = core.scratch('c15-')
    try:
        projdir = make_project(wd)
        if replay:
            data = json.load(open(replay))
            jobs = [{'id': 0, 'seq': data['case']['seq'], 'seed': data['case']['seed'], 'big': data['case'].get('big', 0)}]
            res = run_workers(jobs, projdir, 1)
            cases = [{'id': 0, 'records': res[0]['records']}]
            for r in res[0]['records']:
                print('  ', json.dumps(r)[:300])
            tl, fails = core.tlc_cases('RpcTrace', 'RpcTrace.cfg', cases, 'C15', workdir=wd, nshards=1)
            ck.add_tlc(tl)
            ck.traces = ck.evaluations = 1
            for f in fails:
                ck.violation(data.get('signature'), 'replay: clause %s %s' % (f[3], json.dumps(f[4])), data['case'])
            ck.sample(data['case'])
            return ck.finish()
        thorough = tier == 'thorough'
        mcL = 5 if thorough else 4
        c_mc = write(wd, 'mc.cfg', cfg_text(mcL))
        c_fatal = write(wd, 'fatal.cfg', cfg_text(2, fatal=True))
        c_dot = write(wd, 'dot.cfg', cfg_text(3, invariants=False))
        c_sim = write(wd, 'sim.cfg', cfg_text(12 if thorough else 8, invariants=False))
        dot = os.path.join(wd, 'rpc.dot')
        simdir = os.path.join(wd, 'sim')
        os.makedirs(simdir)
        nsim = 1500 if thorough else 150
        with ThreadPoolExecutor(max_workers=4) as ex:
            f_mc = ex.submit(core.tlc, 'Rpc', c_mc, None, wd)
            f_fatal = ex.submit(core.tlc, 'Rpc', c_fatal, None, wd)
            f_dot = ex.submit(lambda: core.tlc('Rpc', c_dot, workdir=wd, extra=['-dump', 'dot,actionlabels', dot]))
            f_sim = ex.submit(lambda: core.tlc('Rpc', c_sim, workdir=wd, simulate='file=%s/tr,num=%d' % (simdir, nsim),
                                               depth=100, tseed=core.seed() + 7))
            r_mc, r_fatal, r_dot, r_sim = f_mc.result(), f_fatal.result(), f_dot.result(), f_sim.result()
        for r in (r_mc, r_dot, r_sim):
            if r.error:
                raise core.MachineryFailure('TLC error on Rpc.tla: %s\n%s' % (r.error, r.out[-1500:]))
        if r_mc.invariant:
            raise core.MachineryFailure('Rpc.tla violates %s: the M-spec is wrong\n%s' % (r_mc.invariant, r_mc.out[-2500:]))
        if r_fatal.invariant not in ('AliveStrict', 'NoHangStrict'):
            raise core.MachineryFailure('vacuity guard: Rpc.tla with AllowFatal no longer violates Alive')
        ck.add_tlc([r_mc, r_fatal, r_dot])
        g = tlaval.read_dot(dot)
        os.unlink(dot)
        paths, ncov = tlaval.edge_cover(g, rng)
        seqs = {}
        for root, path in paths:
            reqs, replies = seq_of_path(g, root, path)
            if reqs:
                seqs[tuple(reqs)] = replies
        for f in sorted(os.listdir(simdir)):
            tr = tlaval.read_sim_trace(os.path.join(simdir, f))
            if tr:
                st = tr[-1][1]
                if st['reqs']:
                    seqs[tuple(st['reqs'])] = [r[1] for r in st['replies']]
        shutil.rmtree(simdir, ignore_errors=True)
        jobs = []
        for s in sorted(seqs):
            jobs.append({'id': len(jobs), 'seq': list(s), 'seed': rng.randrange(1 << 30), 'big': 0, 'pred': seqs[s]})
        nmodel = len(jobs)
        # long histories on one server, and histories with payloads of several MiB
        classes = ['cfg', 'cfgbad', 'api', 'raises', 'eval', 'evalexc', 'unknown', 'badargs', 'unser']
        for _ in range(24 if thorough else 6):
            n = rng.choice([40, 80, 150] if thorough else [30, 60])
            seq = ['cfg' if rng.random() < 0.1 else rng.choice(classes) for _ in range(n)]
            jobs.append({'id': len(jobs), 'seq': seq, 'seed': rng.randrange(1 << 30), 'big': 0, 'pred': None})
        # editing sessions: the same request before and after a project file changes on disk (the worker edits between API requests)
        for _ in range(40 if thorough else 10):
            seq = ['cfg'] + [rng.choice(['api', 'api', 'api', 'eval', 'raises']) for _ in range(8)]
            jobs.append({'id': len(jobs), 'seq': seq, 'seed': rng.randrange(1 << 30), 'big': 0, 'pred': None})
        for _ in range(8 if thorough else 3):
            seq = ['cfg'] + [rng.choice(classes) for _ in range(10)]
            jobs.append({'id': len(jobs), 'seq': seq, 'seed': rng.randrange(1 << 30), 'big': rng.choice([2 << 20, 3 << 20, 5 << 20]), 'pred': None})
        results = run_workers([{k: v for k, v in j.items() if k != 'pred'} for j in jobs], projdir)
        byid = {r['id']: r for r in results}
        cases = []
        drift = 0
        for j in jobs:
            r = byid[j['id']]
            cases.append({'id': j['id'], 'records': r['records']})
            ck.evaluations += 1
            if nontrivial(j['seq']):
                ck.nontrivial.add(tuple(j['seq']))
            if j['pred'] is not None:
                for rec, pred in zip(r['records'], j['pred']):
                    got = 'ok' if rec['remote']['kind'] == 'ok' else 'error'
                    # the model's class api/raises is decided by the payload; the worker reports both as api
                    if rec['cls'] == 'api':
                        continue
                    if got != pred:
                        drift += 1
        tl, fails = core.tlc_cases('RpcTrace', 'RpcTrace.cfg', cases, 'C15', workdir=wd)
        ck.add_tlc(tl)
        ck.traces = len(cases)
        ck.drift = drift
        # confirm (fresh server, same payloads) before reporting
        picked = {}
        for f in fails:
            picked.setdefault(f[2], f)
        for cid, f in list(picked.items())[:8]:
            j = jobs[cid]
            again = run_workers([{'id': 0, 'seq': j['seq'], 'seed': j['seed'], 'big': j['big']}], projdir, 1)
            _, f2 = core.tlc_cases('RpcTrace', 'RpcTrace.cfg', [{'id': 0, 'records': again[0]['records']}], 'C15', workdir=wd, nshards=1)
            if f2:
                k = f2[0][4][0] if isinstance(f2[0][4], list) and f2[0][4] else 0
                rec = again[0]['records'][k - 1] if 0 < k <= len(again[0]['records']) else None
                sig = {'clause': f2[0][3], 'seq': j['seq'][:k], 'seed': j['seed']}
                ck.violation(sig, 'clause %s of RpcTrace.tla rejected request %s of a real client/server history: %s' % (
                    f2[0][3], k, json.dumps(rec)[:400]),
                    {'seq': j['seq'], 'seed': j['seed'], 'big': j['big'], 'record': rec, 'requests': again[0]['requests'][:k]})
        ck.rule = ('histories = request-class sequences that are behaviours of Rpc.tla (edge cover of the MaxLen=3 graph = every sequence '
                   'of length <= 3 over 9 classes, -simulate behaviours up to length %d) instantiated with seeded payloads, + long random '
                   'histories on one server + histories with MiB payloads; non-trivial = a failing request followed later by an ok-class '
                   'request; distinct by class sequence' % (12 if thorough else 8))
        ck.exhaustive = False
        ck.extra.update({'model_sequences_replayed': nmodel, 'graph_edges': g.nedges, 'graph_edges_covered': ncov,
                         'requests_sent': sum(len(byid[j['id']]['records']) for j in jobs),
                         'long_histories': len(jobs) - nmodel})
        for j in jobs[:1] + jobs[nmodel // 2: nmodel // 2 + 1] + jobs[-1:]:
            ck.sample({'seq': j['seq'][:12], 'requests': byid[j['id']]['requests'][:6],
                       'records': [[r['cls'], r['method'], r['remote']['kind'], r['remote']['msg'][:60], r['local']['kind']] for r in byid[j['id']]['records'][:12]]})
        ck.assumptions = ['requests whose evaluation raises BaseException (SystemExit, os._exit) kill any process and are outside the alphabet',
                          'attribute names of the server object that are not API methods (run, process, conn) are outside the alphabet',
                          'import-line completion is not used here (its proposals include sys.modules of the serving process by design)']
        return ck.finish()
    finally:
        shutil.rmtree(wd, ignore_errors=True)
