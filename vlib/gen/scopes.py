"""Random multi-scope modules (nested functions, lambdas, classes, comprehensions, global / nonlocal, closures,
sibling functions shadowing enclosing names).  Purely syntactic: used where the oracle does not need to execute the
program (query-order independence C04, scope ownership against symtable C05, layout independence C13, determinism C17,
totality C08).  Every module is checked with compile(); invalid ones are discarded."""
import random

NAMES = ['a', 'b', 'c', 'd']
BUILTINS = ['len', 'print', 'str']


class ScopeGen(object):
    def __init__(self, rng, max_depth=3):
        self.rng = rng
        self.max_depth = max_depth
        self.fn = 0

    def name(self):
        return self.rng.choice(NAMES)

    def atom(self, depth, allow_scope=True):
        r = self.rng.random()
        if r < 0.55:
            return self.name()
        if r < 0.65:
            return self.rng.choice(BUILTINS)
        if r < 0.72:
            return str(self.rng.randrange(10))
        if not allow_scope or depth <= 0:
            return self.name()
        if r < 0.82:
            params = self.rng.sample(NAMES, self.rng.randint(0, 2))
            return '(lambda %s: %s)' % (', '.join(params), self.expr(depth - 1))
        if r < 0.92:
            tgt = self.name()
            cond = ' if %s' % self.expr(depth - 1, False) if self.rng.random() < 0.4 else ''
            kind = self.rng.choice(['[%s for %s in %s%s]', '{%s for %s in %s%s}', 'list(%s for %s in %s%s)', '{%s: 0 for %s in %s%s}'])
            return kind % (self.expr(depth - 1, False), tgt, self.expr(depth - 1, False), cond)
        return '(%s := %s)' % (self.name(), self.expr(depth - 1, False))

    def expr(self, depth, allow_scope=True):
        parts = [self.atom(depth, allow_scope) for _ in range(self.rng.randint(1, 3))]
        if len(parts) == 1:
            return parts[0]
        return 'use(' + ', '.join(parts) + ')'

    def block(self, depth, ind, infunc, bound_outer, lo=1, hi=4):
        out = []
        for _ in range(self.rng.randint(lo, hi)):
            out += self.stmt(depth, ind, infunc, bound_outer)
        return out

    def stmt(self, depth, ind, infunc, bound_outer):
        pad = '    ' * ind
        r = self.rng.random()
        if depth <= 0 or r < 0.3:
            k = self.rng.random()
            if k < 0.6:
                return [pad + '%s = %s' % (self.name(), self.expr(min(depth, 1)))]
            if k < 0.8:
                return [pad + 'use(%s)' % self.expr(min(depth, 1))]
            if k < 0.9 and infunc:
                return [pad + 'return %s' % self.expr(0)]
            return [pad + '%s, %s = %s, %s' % (self.name(), self.name(), self.expr(0), self.expr(0))]
        if r < 0.5:
            # a function: parameters, optional declarations, body
            self.fn += 1
            fname = self.rng.choice(['f%d' % self.fn, self.name()])
            params = self.rng.sample(NAMES, self.rng.randint(0, 2))
            sig = []
            for p in params:
                sig.append(p if self.rng.random() < 0.7 else '%s=%s' % (p, self.expr(0)))
            if self.rng.random() < 0.2:
                sig.append('*rest')
            lines = []
            if self.rng.random() < 0.2:
                lines.append(pad + '@%s' % self.rng.choice(['use', self.name()]))
            lines.append(pad + 'def %s(%s):' % (fname, ', '.join(sig)))
            body = []
            decl = set(params)
            if self.rng.random() < 0.25:
                g = self.rng.choice([n for n in NAMES if n not in decl] or ['zz'])
                if g != 'zz':
                    body.append(pad + '    global %s' % g)
                    decl.add(g)
            if infunc and bound_outer and self.rng.random() < 0.25:
                cand = [n for n in bound_outer if n not in decl]
                if cand:
                    nl = self.rng.choice(sorted(cand))
                    body.append(pad + '    nonlocal %s' % nl)
                    decl.add(nl)
            inner = self.block(depth - 1, ind + 1, True, set(params) | self.assigned_names(lines), 1, 4)
            # names this function certainly binds (for nonlocal in children): parameters and plain assignments at its top level
            lines += body + inner
            return lines
        if r < 0.6:
            self.fn += 1
            lines = [pad + 'class K%d(%s):' % (self.fn, self.rng.choice(['object', self.name(), '']))]
            lines += self.block(depth - 1, ind + 1, False, set(), 1, 3)
            return lines
        if r < 0.75:
            lines = [pad + 'if %s:' % self.expr(0)] + self.block(depth - 1, ind + 1, infunc, bound_outer, 1, 2)
            if self.rng.random() < 0.5:
                lines += [pad + 'else:'] + self.block(depth - 1, ind + 1, infunc, bound_outer, 1, 2)
            return lines
        if r < 0.87:
            head = self.rng.choice(['for %s in %s:' % (self.name(), self.expr(0)), 'while %s:' % self.expr(0)])
            return [pad + head] + self.block(depth - 1, ind + 1, infunc, bound_outer, 1, 3)
        lines = [pad + 'try:'] + self.block(depth - 1, ind + 1, infunc, bound_outer, 1, 2)
        lines += [pad + 'except %s as %s:' % (self.rng.choice(['Exception', 'KeyError']), self.name())] + self.block(depth - 1, ind + 1, infunc, bound_outer, 1, 2)
        return lines

    @staticmethod
    def assigned_names(lines):
        return set()

    def module(self):
        lines = ['def use(*args):', '    return args']
        for n in NAMES:
            if self.rng.random() < 0.5:
                lines.append('%s = %d' % (n, self.rng.randrange(10)))
        lines += self.block(self.max_depth, 0, False, set(), 3, 6)
        return '\n'.join(lines) + '\n'


def closure_family(rng):
    """sibling closures inside one function, one shadowing an enclosing variable the other reads (and variations)"""
    v, w = rng.sample(NAMES, 2)
    forms = [
        'def outer({v}, {w}):\n    def first({v}):\n        return {v}, {w}\n    def second():\n        return {v}, {w}\n    return first, second, {v}\n',
        'def outer():\n    {v} = 1\n    {w} = 2\n    one = lambda {v}: ({v}, {w})\n    two = lambda: ({v}, {w})\n    def three():\n        {v} = 3\n        return {v}, {w}\n    return one, two, three, {v}\n',
        'def outer({v}):\n    def a1():\n        def deep({w}):\n            return {v}, {w}\n        return deep, {v}\n    def a2():\n        {v} = 0\n        return [{v} for {w} in ({v},)], {w}\n    {w} = 5\n    return a1, a2\n',
        'def outer():\n    {v} = 1\n    class K:\n        {v} = 2\n        def m(self, {w}):\n            return {v}, {w}\n    def sib():\n        return {v}\n    {w} = 3\n    return K, sib, {w}\n',
    ]
    src = rng.choice(forms).format(v=v, w=w)
    extra = ScopeGen(rng, 2).block(2, 0, False, set(), 0, 2)
    return 'def use(*args):\n    return args\n%s = 0\n%s = 0\n' % (v, w) + src + '\n'.join(extra) + ('\n' if extra else '')


def gen_modules(seed, n, max_depth=3):
    rng = random.Random(seed)
    out = []
    tries = 0
    while len(out) < n and tries < n * 20:
        tries += 1
        src = closure_family(rng) if rng.random() < 0.25 else ScopeGen(rng, max_depth).module()
        try:
            compile(src, '<scopes>', 'exec')
        except SyntaxError:
            continue
        out.append(src)
    return out
