"""Multi-scope programs for spec/PyScope.tla (C01 beyond one body): nested functions with every parameter kind,
lambdas, classes, comprehensions, closures, global / nonlocal, calls, if / for inside any body.

A program is generated as a tree, rendered to Python text whose reads / bindings / decisions go through the
oracle object `_vo` (the same text is executed by CPython and analysed by supp), and reduced to the scopes + nodes
of PyScope.tla.  enumerate_cpython() runs the decision DFS of vlib.gen.prog over the real interpreter."""
import types

from . import prog

NAMES = ['a', 'b', 'c', 'd']
FNAMES = ['f1', 'f2', 'f3']
BUILTINS = ['len', 'print']
MAXCALLS = 4


# (module, one public name it exports to `import *`); builtin modules without a file among them
STD_STARS = [('gc', 'collect'), ('errno', 'ENOENT'), ('string', 'digits'), ('keyword', 'iskeyword'), ('faulthandler', 'dump_traceback'),
             ('pwd', 'getpwnam'), ('time', 'sleep'), ('math', 'pi'), ('textwrap', 'dedent'), ('atexit', 'register')]


class MGen(object):
    def __init__(self, rng, max_depth=3, names=None):
        self.rng = rng
        self.max_depth = max_depth
        self.names = names or NAMES
        self.nsite = 0
        self.nrid = 0
        self.ndec = 0
        self.nk = 0
        self.nstmt = 0
        self.nstar = 0
        self.nstd = 0
        self.std_used = []
        self.seen = [set()]       # per open scope: names bound so far in the text (reads are biased towards them)

    def site(self):
        self.nsite += 1
        return self.nsite

    def std_next(self):
        rest = [x for x in STD_STARS if x[0] not in self.std_used]
        return self.rng.choice(rest)

    def rid(self):
        self.nrid += 1
        return self.nrid

    def var(self):
        return self.rng.choice(self.names)

    def bvar(self):
        """a name to bind: now and then a builtin's name (module and class bodies keep seeing the builtin until then)"""
        return self.rng.choice(BUILTINS) if self.rng.random() < 0.07 else self.var()

    def visible(self):
        out = set()
        for x in self.seen:
            out |= x
        return sorted(out)

    def atom(self):
        r = self.rng.random()
        vis = self.visible()
        if r < 0.86 and vis:
            n = self.rng.choice(vis)
        elif r < 0.91:
            n = self.var()
        elif r < 0.93:
            n = self.rng.choice(FNAMES)
        else:
            n = self.rng.choice(BUILTINS)
        return [n, self.rid()]

    def callee(self):
        vis = [n for n in self.visible() if n in FNAMES]
        if vis and self.rng.random() < 0.92:
            return self.rng.choice(vis)
        return self.rng.choice(FNAMES + self.names[:1])

    def bound(self, n):
        self.seen[-1].add(n)
        return n

    def atoms(self, lo=0, hi=2):
        return [self.atom() for _ in range(self.rng.randint(lo, hi))]

    def block(self, kind, depth, enclosing, lo, hi):
        out = []
        for _ in range(self.rng.randint(lo, hi)):
            if self.nstmt > 30:
                break
            s = self.stmt(kind, depth, enclosing)
            out.append(s)
            if s['k'] == 'star' and s.get('std') and self.rng.random() < 0.7:
                out.append({'k': 'read', 'atoms': [[s['names'][0][0], self.rid()]]})
            if s['k'] in ('def', 'lambda') and self.rng.random() < 0.8:
                if self.rng.random() < 0.3:
                    out.append(self.stmt(kind, 0, enclosing))
                out.append({'k': 'call', 'name': s['name'], 'rid': self.rid()})
        return out

    def params(self):
        """[(form, name, site, default atoms, annotation atoms)] in signature order"""
        ps = []
        used = set()

        def pick():
            c = [n for n in self.names if n not in used]
            if not c:
                return None
            n = self.rng.choice(c)
            used.add(n)
            return n
        plan = []
        r = self.rng.random()
        if r < 0.25:
            plan = []
        elif r < 0.6:
            plan = ['pos']
        else:
            plan = self.rng.sample(['posonly', 'pos', 'posdef', 'var', 'kwonly', 'kwdef', 'kw'], self.rng.randint(1, 3))
            order = ['posonly', 'pos', 'posdef', 'var', 'kwonly', 'kwdef', 'kw']
            plan.sort(key=order.index)
        for form in plan:
            n = pick()
            if n is None:
                break
            dflt = self.atoms(1, 1) if form in ('posdef', 'kwdef') else []
            ann = self.atoms(1, 1) if self.rng.random() < 0.15 else []
            ps.append([form, n, self.site(), dflt, ann])
        return ps

    def stmt(self, kind, depth, enclosing):
        """kind: module | function | class;  enclosing: names bound in enclosing function-like scopes (nonlocal candidates)"""
        self.nstmt += 1
        r = self.rng.random()
        if depth <= 0 or r < 0.24:
            return {'k': 'assign', 'name': self.bound(self.bvar()), 'site': self.site()}
        if r < 0.46:
            return {'k': 'read', 'atoms': self.atoms(1, 2)}
        if r < 0.56:
            if self.rng.random() < 0.3:
                # import forms: each import statement names a module of its own, so the value read later identifies the statement
                if kind == 'module' and self.rng.random() < 0.35:
                    self.nstar += 1
                    if self.rng.random() < 0.45 and self.nstd < len(STD_STARS):
                        # a standard-library module (some builtin, some not loaded by an interpreter at start-up): one of its public names joins the alphabet
                        mod, export = self.std_next()
                        self.nstd += 1
                        self.std_used.append(mod)
                        if export not in self.names:
                            self.names = list(self.names) + [export]
                        return {'k': 'star', 'mod': mod, 'std': True, 'names': [[self.bound(export), self.site()]]}
                    names = self.rng.sample(self.names, self.rng.randint(1, min(2, len(self.names))))
                    return {'k': 'star', 'mod': 'vstar%d' % self.nstar, 'names': [[self.bound(n), self.site()] for n in names]}
                return {'k': 'imp', 'form': self.rng.choice(['import', 'from']), 'name': self.bound(self.bvar()), 'site': self.site()}
            return {'k': 'call', 'name': self.callee(), 'rid': self.rid()}
        if r < 0.64 and self.ndec < 5:
            self.ndec += 1
            s = {'k': 'if', 'test': self.atoms(0, 1), 'body': self.block(kind, depth - 1, enclosing, 1, 2), 'orelse': []}
            if self.rng.random() < 0.5:
                s['orelse'] = self.block(kind, depth - 1, enclosing, 1, 2)
            return s
        if r < 0.69 and self.ndec < 4:
            self.ndec += 2
            it = self.atoms(0, 1)
            return {'k': 'for', 'name': self.bound(self.bvar()), 'site': self.site(), 'iter': it,
                    'body': self.block(kind, depth - 1, enclosing, 1, 2)}
        if r < 0.83:
            ps = self.params()
            pnames = {p[1] for p in ps}
            gl, nl = [], []
            if self.rng.random() < 0.25:
                c = [n for n in self.names if n not in pnames]
                if c:
                    gl.append(self.rng.choice(c))
            want_nl = self.rng.random() < 0.3
            fname = self.rng.choice(FNAMES + FNAMES + [self.var()])
            s = {'k': 'def', 'name': fname, 'site': self.site(), 'params': ps, 'gl': gl, 'nl': nl, 'want_nl': want_nl,
                 'decos': self.atoms(1, 1) if self.rng.random() < 0.15 else [],
                 'ret': self.atoms(1, 1) if self.rng.random() < 0.1 else [],
                 'async': self.rng.random() < 0.12}
            self.seen.append(set(pnames))
            s['body'] = self.block('function', depth - 1, enclosing, 1, 4)
            self.seen.pop()
            self.bound(fname)
            if self.rng.random() < 0.3:
                s['body'].append({'k': 'return', 'atoms': self.atoms(0, 1)})
            return s
        if r < 0.88:
            # name = lambda params: (reads)
            ps = [p for p in self.params() if not p[4]]
            for p in ps:
                p[4] = []
            self.seen.append({p[1] for p in ps})
            at = self.atoms(1, 2)
            self.seen.pop()
            return {'k': 'lambda', 'name': self.bound(self.rng.choice(FNAMES + [self.var()])), 'site': self.site(), 'params': ps, 'atoms': at}
        if r < 0.94:
            self.nk += 1
            c = {'k': 'class', 'name': 'K%d' % self.nk, 'site': self.site(), 'bases': self.atoms(1, 1) if self.rng.random() < 0.25 else [],
                 'kw': self.atoms(1, 1) if self.rng.random() < 0.1 else [],
                 'decos': self.atoms(1, 1) if self.rng.random() < 0.1 else []}
            self.seen.append(set())
            c['body'] = self.block('class', depth - 1, enclosing, 1, 3)
            self.seen.pop()
            return c
        it = self.atoms(1, 1)
        t = self.var()
        self.seen.append({t})
        c = {'k': 'comp', 'form': self.rng.choice(['list', 'set', 'dict', 'gen']), 'name': t, 'site': self.site(),
             'iter': it, 'cond': self.atoms(0, 1), 'elt': self.atoms(1, 2), 'walrus': None}
        self.seen.pop()
        if kind != 'class' and self.rng.random() < 0.3:
            w = self.rng.choice([n for n in self.names if n != t] or [None])
            if w:
                # (w := ...) in the element: binds in the scope the comprehension is written in, if the comprehension runs
                c['walrus'] = [self.bound(w), self.site()]
        elif kind != 'class' and self.rng.random() < 0.25:
            # (f := lambda: ...) in the element: a function written inside the comprehension, called later - it sees the comprehension's
            # variable and everything the enclosing scope has bound BY THEN
            fn = self.rng.choice(FNAMES)
            self.seen.append({t})
            c['wlam'] = {'name': fn, 'site': self.site(), 'atoms': self.atoms(1, 2)}
            self.seen.pop()
            self.bound(fn)
        return c

    # ---- shape families: deep / rare constellations the random grammar reaches too seldom ---------------------------
    def _assign(self, n):
        return {'k': 'assign', 'name': self.bound(n), 'site': self.site()}

    def _read(self, *names):
        return {'k': 'read', 'atoms': [[n, self.rid()] for n in names]}

    def _call(self, n):
        return {'k': 'call', 'name': n, 'rid': self.rid()}

    def _def(self, name, params, body, gl=(), nl=(), **kw):
        d = {'k': 'def', 'name': name, 'site': self.site(), 'params': params, 'gl': list(gl), 'nl': [], 'force_nl': list(nl), 'want_nl': False,
             'decos': [], 'ret': [], 'async': self.rng.random() < 0.1, 'body': body}
        d.update(kw)
        return d

    def _param(self, form, n, dflt=None):
        return [form, n, self.site(), [[dflt, self.rid()]] if dflt else [], []]

    def family(self):
        rng = self.rng
        v, w = rng.sample(self.names, 2) if len(self.names) >= 2 else (self.names[0], self.names[0])
        kind = rng.choice(['nonlocal', 'nonlocal', 'params', 'classinfunc', 'global', 'comp', 'decofirst'])
        body = []
        if rng.random() < 0.5:
            body.append(self._assign(v))
        if kind == 'nonlocal':
            # f1 owns v (parameter or assignment, before or after the nested def); f3, two levels down, rebinds it
            as_param = rng.random() < 0.4
            late = not as_param and rng.random() < 0.4
            inner3 = [self._read(v), self._assign(v), self._read(v)]
            if rng.random() < 0.5:
                inner3 = [self._read(v), {'k': 'if', 'test': [], 'body': [self._assign(v)], 'orelse': []}, self._read(v)]
            last = late and rng.random() < 0.4
            if last:
                # the owner's own assignment comes after the call that binds the variable through the closure: f3 must bind first
                inner3 = [self._assign(v), self._read(v)]
            f3 = self._def('f3', [], inner3, nl=[v])
            if last:
                f3['no_lead'] = True
            mid = [f3]
            if rng.random() < 0.5:
                mid.insert(0, self._assign(w))
            mid += [self._call('f3'), self._read(v)]
            direct = rng.random() < 0.35            # one level only
            f2 = self._def('f2', [self._param('pos', w)] if rng.random() < 0.3 else [], mid)
            b1 = []
            if not as_param and not late:
                b1.append(self._assign(v))
            if direct:
                b1 += [f3]
                if late and not last:
                    b1.append(self._assign(v))
                b1 += [self._call('f3'), self._read(v)]
            else:
                b1 += [f2]
                if late and not last:
                    b1.append(self._assign(v))
                b1 += [self._call('f2'), self._read(v)]
            if last:
                b1.append(self._assign(v))
            body += [self._def('f1', [self._param('pos', v)] if as_param else [], b1), self._call('f1')]
        elif kind == 'params':
            forms = ['posonly', 'pos', 'posdef', 'var', 'kwonly', 'kwdef', 'kw']
            pick = [f for f in forms if rng.random() < 0.6] or ['posonly']
            names = (self.names * 3)[:]
            ps = []
            used = []
            for f in pick:
                c = [n for n in self.names if n not in used]
                if not c:
                    break
                n = rng.choice(c)
                used.append(n)
                ps.append(self._param(f, n, dflt=(v if f in ('posdef', 'kwdef') else None)))
            if rng.random() < 0.5:
                self.seen.append(set(used))
                lam = {'k': 'lambda', 'name': self.bound('f1'), 'site': self.site(), 'params': ps, 'atoms': [[n, self.rid()] for n in used] + self.atoms(0, 1)}
                self.seen.pop()
                body += [self._assign(v), lam, self._call('f1')]
            else:
                body += [self._assign(v), self._def('f1', ps, [self._read(*used)] + self.block('function', 1, set(), 0, 2)), self._call('f1')]
        elif kind == 'classinfunc':
            # methods of a class written inside a function see the function's variables, not the class's
            meth = self._def('f2', [self._param('pos', w)], [self._read(v, w)] + ([self._read('f1')] if rng.random() < 0.3 else []))
            cls_body = []
            if rng.random() < 0.5:
                cls_body.append(self._assign(v))
            cls_body += [meth, self._call('f2')]
            if rng.random() < 0.5:
                cls_body.append(self._read(v))
            self.nk += 1
            cls = {'k': 'class', 'name': 'K%d' % self.nk, 'site': self.site(), 'bases': [], 'kw': [], 'decos': [], 'body': cls_body}
            if rng.random() < 0.4:
                self.nk += 1
                cls = {'k': 'class', 'name': 'K%d' % self.nk, 'site': self.site(), 'bases': [], 'kw': [], 'decos': [], 'body': [cls]}
            as_param = rng.random() < 0.5
            b1 = ([] if as_param else [self._assign(v)]) + [cls, self._read(v)]
            body += [self._def('f1', [self._param(rng.choice(['pos', 'kwonly', 'posonly']), v)] if as_param else [], b1), self._call('f1')]
        elif kind == 'global':
            f2 = self._def('f2', [], [self._read(v)])
            b1 = [self._assign(v), f2, self._call('f2')]
            if rng.random() < 0.5:
                b1.insert(0, self._read(v))
                body = [self._assign(v)]
            body += [self._def('f1', [], b1, gl=[v]), self._call('f1'), self._read(v)]
        elif kind == 'decofirst':
            # a block whose FIRST statement is a decorated definition reading the name the block header has just bound
            inner = self._def('f2', [], [self._read(v)], decos=[[v, self.rid()]])
            if rng.random() < 0.4:
                self.nk += 1
                inner = {'k': 'class', 'name': 'K%d' % self.nk, 'site': self.site(), 'bases': [], 'kw': [], 'decos': [[v, self.rid()]], 'body': [self._read(v)]}
            where = rng.choice(['for', 'param', 'forinfunc'])
            if where == 'for':
                body += [{'k': 'for', 'name': self.bound(v), 'site': self.site(), 'iter': [], 'body': [inner, self._read(v)]}]
            elif where == 'param':
                body += [self._def('f1', [self._param(rng.choice(['pos', 'kwonly', 'posonly', 'var']), v)], [inner, self._read(v)]), self._call('f1')]
            else:
                loop = {'k': 'for', 'name': self.bound(v), 'site': self.site(), 'iter': [], 'body': [inner, self._read(v)]}
                body += [self._def('f1', [], [loop]), self._call('f1')]
        elif rng.random() < 0.4:
            # a lambda written inside a comprehension and called later reads what the enclosing scope binds only afterwards
            comp = {'k': 'comp', 'form': rng.choice(['list', 'set', 'dict', 'gen']), 'name': w, 'site': self.site(),
                    'iter': [[w, self.rid()]], 'cond': [], 'elt': [[w, self.rid()]], 'walrus': None,
                    'wlam': {'name': self.bound('f2'), 'site': self.site(), 'atoms': [[v, self.rid()], [w, self.rid()]]}}
            inner = [self._assign(w), comp, self._assign(v), self._call('f2')]
            if rng.random() < 0.5:
                body = [self._def('f1', [], inner), self._call('f1')]
            else:
                body = inner
        else:
            comp = {'k': 'comp', 'form': rng.choice(['list', 'set', 'dict', 'gen']), 'name': v, 'site': self.site(),
                    'iter': [[v, self.rid()]], 'cond': [[w, self.rid()]] if rng.random() < 0.5 else [], 'elt': [[v, self.rid()], [w, self.rid()]]}
            inner = [self._assign(w), comp, self._read(v, w)]
            if rng.random() < 0.5:
                self.nk += 1
                inner = [self._assign(w), {'k': 'class', 'name': 'K%d' % self.nk, 'site': self.site(), 'bases': [], 'kw': [], 'decos': [],
                                            'body': [self._assign(v), comp, self._read(v)]}]
            body += [self._assign(v), self._assign(w), self._def('f1', [], inner), self._call('f1')]
        return body + self.block('module', 2, set(), 0, 3)

    def program(self):
        if self.rng.random() < 0.3:
            return self.family()
        pre = []
        for n in self.names:
            if self.rng.random() < 0.45:
                pre.append({'k': 'assign', 'name': self.bound(n), 'site': self.site()})
        body = pre + self.block('module', self.max_depth, set(), 4, 8)
        return body


def own_bound(body):
    """names bound by the statements of one body itself (not by nested scopes)"""
    out = set()
    for s in body:
        k = s['k']
        if k in ('assign', 'def', 'lambda', 'class', 'imp'):
            out.add(s['name'])
        elif k == 'star':
            out |= {n for n, _ in s['names']}
        elif k == 'comp' and s.get('walrus'):
            out.add(s['walrus'][0])
        elif k == 'comp' and s.get('wlam'):
            out.add(s['wlam']['name'])
        elif k == 'for':
            out.add(s['name'])
            out |= own_bound(s['body'])
        elif k == 'if':
            out |= own_bound(s['body']) | own_bound(s['orelse'])
    return out


def fix_nonlocals(body, rng, enclosing=None, gen=None):
    """choose the nonlocal declarations once every body is complete: a function that wants one declares a name that an
    enclosing function-like scope really binds (anything else is a SyntaxError)"""
    for s in body:
        k = s['k']
        if k == 'def':
            pn = {p[1] for p in s['params']}
            s['nl'] = [n for n in s.get('force_nl', []) if enclosing and n in enclosing and n not in pn]
            if s.get('want_nl') and enclosing:
                c = sorted(n for n in enclosing if n not in pn and n not in s['gl'])
                if c:
                    s['nl'] = [rng.choice(c)]
            # a declared name is interesting when the function reads it first and rebinds it afterwards
            for n in s['gl'] + s['nl']:
                if gen is not None and rng.random() < 0.6 and not s.get('no_lead'):
                    s['body'].insert(0, {'k': 'read', 'atoms': [[n, gen.rid()]]})
                if gen is not None and rng.random() < 0.6:
                    at = len(s['body']) - (1 if s['body'] and s['body'][-1]['k'] == 'return' else 0)
                    s['body'].insert(at, {'k': 'assign', 'name': n, 'site': gen.site()})
            mine = (own_bound(s['body']) | pn) - set(s['gl']) - set(s['nl'])
            fix_nonlocals(s['body'], rng, ((enclosing or set()) - set(s['gl'])) | mine, gen)
        elif k == 'class':
            fix_nonlocals(s['body'], rng, enclosing, gen)
        elif k in ('if', 'for'):
            fix_nonlocals(s['body'], rng, enclosing, gen)
            if k == 'if':
                fix_nonlocals(s['orelse'], rng, enclosing, gen)


# ---------------------------------------------------------------------------
# rendering

class Rendered(object):
    def __init__(self):
        self.lines = []
        self.read_pos = {}        # rid -> (line, col, name)
        self.def_line = {}        # first line of a def (its first decorator) / of a lambda -> site
        self.class_site = {}      # class name -> site
        self.params = {}          # def site -> [(form, name, site)]
        self.star_files = {}      # module name -> text (project files supp analyses)
        self.star_sites = {}      # module name -> {name: site}
        self.std_stars = {}       # standard-library module name -> {name: site}
        self.std_vals = []        # (object, site) for the names star-imported from standard-library modules
        self.imp_sites = []       # sites of `import vm<site> as name`


def render(body):
    R = Rendered()
    out = R.lines

    def rd(a, line, col):
        head = '_vo.r(_vo.p(%d), ' % a[1]
        R.read_pos[a[1]] = (line, col + len(head), a[0])
        return head + a[0] + ')'

    def reads(atoms, line, col, fn='_vo.e'):
        text = fn + '('
        c = col + len(text)
        parts = []
        for a in atoms:
            t = rd(a, line, c)
            parts.append(t)
            c += len(t) + 2
        return text + ', '.join(parts) + ')'

    def sig(ps, line, col, lam=False):
        """signature text; defaults and annotations are reads evaluated in the enclosing scope at definition time"""
        parts = []
        c = col
        forms = [p[0] for p in ps]
        for i, (form, n, s_, dflt, ann) in enumerate(ps):
            t = {'var': '*', 'kw': '**'}.get(form, '') + n
            if form in ('kwonly', 'kwdef') and 'var' not in forms and all(f not in ('kwonly', 'kwdef') for f in forms[:i]):
                parts.append('*')
                c += 3
            if ann and not lam:
                t += ': '
                t += rd(ann[0], line, c + len(t))
            if dflt:
                t += ' = ' if (ann and not lam) else '='
                t += rd(dflt[0], line, c + len(t))
            parts.append(t)
            c += len(t) + 2
            if form == 'posonly' and (i + 1 == len(ps) or ps[i + 1][0] != 'posonly'):
                parts.append('/')
                c += 3
        return ', '.join(parts)

    def blk(b, ind):
        if not b:
            out.append('    ' * ind + 'pass')
        for s in b:
            st(s, ind)

    def st(s, ind):
        pad = '    ' * ind
        line = len(out) + 1
        k = s['k']
        if k == 'assign':
            out.append(pad + '%s = _vo.b(%d)' % (s['name'], s['site']))
        elif k == 'imp':
            out.append(pad + ('import vm%d as %s' % (s['site'], s['name']) if s['form'] == 'import' else 'from vmods import t%d as %s' % (s['site'], s['name'])))
        elif k == 'star':
            if s.get('std'):
                R.std_stars[s['mod']] = {n: st_ for n, st_ in s['names']}
            else:
                R.star_files[s['mod']] = ''.join('%s = %d\n' % (n, st_) for n, st_ in s['names'])
                R.star_sites[s['mod']] = {n: st_ for n, st_ in s['names']}
            out.append(pad + 'from %s import *' % s['mod'])
        elif k == 'read':
            out.append(pad + reads(s['atoms'], line, len(pad)))
        elif k == 'call':
            head = pad + '_vo.c('
            out.append(head + rd([s['name'], s['rid']], line, len(head)) + ')')
        elif k == 'return':
            out.append(pad + 'return ' + reads(s['atoms'], line, len(pad) + 7))
        elif k == 'if':
            head = pad + 'if '
            out.append(head + reads(s['test'], line, len(head), fn='_vo.d') + ':')
            blk(s['body'], ind + 1)
            if s['orelse']:
                out.append(pad + 'else:')
                blk(s['orelse'], ind + 1)
        elif k == 'for':
            head = pad + 'for %s in ' % s['name']
            out.append(head + reads(s['iter'], line, len(head), fn='_vo.it(%d, _vo.e' % s['site']) + '):')
            blk(s['body'], ind + 1)
        elif k == 'def':
            R.def_line[line] = s['site']
            R.params[s['site']] = [(p[0], p[1], p[2]) for p in s['params']]
            for a in s['decos']:
                head = pad + '@_vo.deco('
                out.append(head + rd(a, len(out) + 1, len(head)) + ')')
            line = len(out) + 1
            head = pad + ('async def ' if s['async'] else 'def ') + s['name'] + '('
            text = head + sig(s['params'], line, len(head)) + ')'
            if s['ret']:
                text += ' -> '
                text += rd(s['ret'][0], line, len(text))
            out.append(text + ':')
            for n in s['gl']:
                out.append(pad + '    global ' + n)
            for n in s['nl']:
                out.append(pad + '    nonlocal ' + n)
            blk(s['body'], ind + 1)
        elif k == 'lambda':
            R.def_line[line] = s['site']
            R.params[s['site']] = [(p[0], p[1], p[2]) for p in s['params']]
            head = pad + '%s = _vo.f(%d, lambda ' % (s['name'], s['site'])
            sg = sig(s['params'], line, len(head), lam=True)
            head2 = head + sg + ': '
            if not sg:
                head2 = pad + '%s = _vo.f(%d, lambda: ' % (s['name'], s['site'])
            out.append(head2 + reads(s['atoms'], line, len(head2)) + ')')
        elif k == 'class':
            R.class_site[s['name']] = s['site']
            for a in s['decos']:
                head = pad + '@_vo.deco('
                out.append(head + rd(a, len(out) + 1, len(head)) + ')')
            line = len(out) + 1
            text = pad + 'class %s' % s['name']
            args = []
            if s['bases'] or s['kw']:
                text += '('
                for a in s['bases']:
                    t = '_vo.base(' + rd(a, line, len(text) + len('_vo.base(')) + ')'
                    text += t
                    if s['kw']:
                        text += ', '
                for a in s['kw']:
                    t = 'metaclass=_vo.meta(' + rd(a, line, len(text) + len('metaclass=_vo.meta(')) + ')'
                    text += t
                text += ')'
            out.append(text + ':')
            blk(s['body'], ind + 1)
        elif k == 'comp':
            opener, closer = {'list': ('[', ']'), 'set': ('{', '}'), 'dict': ('{0: ', '}'), 'gen': ('list(', ')')}[s['form']]
            head = pad + '_vo.e(' + opener
            if s.get('walrus'):
                head += '_vo.e((%s := _vo.b(%d)), ' % (s['walrus'][0], s['walrus'][1])
                text = head + reads(s['elt'], line, len(head)) + ')'
            elif s.get('wlam'):
                wl = s['wlam']
                head += '_vo.e((%s := _vo.f(%d, lambda: ' % (wl['name'], wl['site'])
                head += reads(wl['atoms'], line, len(head)) + ')), '
                R.def_line[line] = wl['site']
                R.params[wl['site']] = []
                text = head + reads(s['elt'], line, len(head)) + ')'
            else:
                text = head + reads(s['elt'], line, len(head))
            text += ' for %s in ' % s['name']
            text += reads(s['iter'], line, len(text), fn='_vo.it1(%d, _vo.e' % s['site']) + ')'
            if s['cond']:
                text += ' if '
                text += reads(s['cond'], line, len(text), fn='_vo.t')
            out.append(text + closer + ')')
        else:
            raise AssertionError(k)

    blk(body, 0)
    R.source = '\n'.join(out) + '\n'
    return R


# ---------------------------------------------------------------------------
# reduction to PyScope.tla

def reduce_program(body):
    nodes = [None]
    scopes = [None]

    def new(**kw):
        d = dict(k='', c=[], n='', s=0, sc=0, o=0)
        d.update(kw)
        nodes.append(d)
        return len(nodes) - 1

    def new_scope(**kw):
        d = dict(kind='', parent=0, root=0, site=0, params=[], gl=[], nl=[])
        d.update(kw)
        scopes.append(d)
        return len(scopes) - 1

    def rd_nodes(atoms, o):
        return [new(k='read', n=a[0], s=a[1], o=o) for a in atoms]

    def seq(ids, o):
        return new(k='seq', c=ids, o=o)

    def blk(b, o):
        ids = []
        for s in b:
            ids += st(s, o)
        return seq(ids, o)

    def header_reads(s, o):
        ids = rd_nodes(s.get('decos', []), o)
        # defaults in signature order (positional defaults, then keyword-only defaults), then annotations, then the return annotation
        ps = s.get('params', [])
        for p in ps:
            if p[0] == 'posdef':
                ids += rd_nodes(p[3], o)
        for p in ps:
            if p[0] == 'kwdef':
                ids += rd_nodes(p[3], o)
        # annotations: CPython's compiler visits args, posonlyargs, vararg, kwonlyargs, kwarg, then the return annotation
        for forms in (('pos', 'posdef'), ('posonly',), ('var',), ('kwonly', 'kwdef'), ('kw',)):
            for p in ps:
                if p[0] in forms:
                    ids += rd_nodes(p[4], o)
        ids += rd_nodes(s.get('ret', []), o)
        return ids

    def st(s, o):
        k = s['k']
        if k == 'assign':
            return [new(k='bind', n=s['name'], s=s['site'], o=o)]
        if k == 'imp':
            return [new(k='bind', n=s['name'], s=s['site'], o=o)]
        if k == 'star':
            return [new(k='bind', n=n, s=st_, o=o) for n, st_ in s['names']]
        if k == 'read':
            return rd_nodes(s['atoms'], o)
        if k == 'call':
            return [new(k='call', n=s['name'], s=s['rid'], o=o)]
        if k == 'return':
            return rd_nodes(s['atoms'], o) + [new(k='return', o=o)]
        if k == 'if':
            t = seq(rd_nodes(s['test'], o), o) if s['test'] else 0
            b = blk(s['body'], o)
            e = blk(s['orelse'], o) if s['orelse'] else 0
            return [new(k='if', c=[t, b, e], o=o)]
        if k == 'for':
            it = seq(rd_nodes(s['iter'], o), o) if s['iter'] else 0
            b = blk(s['body'], o)
            return [new(k='for', c=[it, b], n=s['name'], s=s['site'], o=o)]
        if k == 'def':
            ids = header_reads(s, o)
            sc = new_scope(kind='function', parent=o, site=s['site'], params=[{'n': p[1], 's': p[2]} for p in s['params']],
                           gl=list(s['gl']), nl=list(s['nl']))
            scopes[sc]['root'] = blk(s['body'], sc)
            return ids + [new(k='def', n=s['name'], s=s['site'], sc=sc, o=o)]
        if k == 'lambda':
            ids = header_reads(s, o)
            sc = new_scope(kind='lambda', parent=o, site=s['site'], params=[{'n': p[1], 's': p[2]} for p in s['params']])
            scopes[sc]['root'] = seq(rd_nodes(s['atoms'], sc), sc)
            return ids + [new(k='def', n=s['name'], s=s['site'], sc=sc, o=o)]
        if k == 'class':
            ids = rd_nodes(s['decos'], o) + rd_nodes(s['bases'], o) + rd_nodes(s['kw'], o)
            sc = new_scope(kind='class', parent=o)
            scopes[sc]['root'] = blk(s['body'], sc)
            return ids + [new(k='class', n=s['name'], s=s['site'], sc=sc, o=o)]
        if k == 'comp':
            ids = rd_nodes(s['iter'], o)
            sc = new_scope(kind='comp', parent=o, params=[{'n': s['name'], 's': s['site']}])
            wb = [new(k='wbind', n=s['walrus'][0], s=s['walrus'][1], o=sc)] if s.get('walrus') else []
            if s.get('wlam'):
                wl = s['wlam']
                lsc = new_scope(kind='lambda', parent=sc, site=wl['site'], params=[])
                scopes[lsc]['root'] = seq(rd_nodes(wl['atoms'], lsc), lsc)
                wb = [new(k='wdef', n=wl['name'], s=wl['site'], sc=lsc, o=sc)]
            scopes[sc]['root'] = seq(rd_nodes(s['cond'], sc) + wb + rd_nodes(s['elt'], sc), sc)
            return ids + [new(k='comp', sc=sc, o=o)]
        raise AssertionError(k)

    new_scope(kind='module')
    scopes[1]['root'] = blk(body, 1)
    return nodes[1:], scopes[1:]


# ---------------------------------------------------------------------------
# the CPython oracle

class MOracle(prog.Oracle):
    def __init__(self, script, R, max_steps=20000):
        prog.Oracle.__init__(self, script, max_steps)
        self.R = R
        self.ncalls = 0

    def site_of(self, x):
        if isinstance(x, prog.Token):
            return x.site
        for v, st_ in self.R.std_vals:
            if v is x:
                return st_
        if isinstance(x, types.FunctionType):
            s = getattr(x, '_vsite', None)
            if s is None:
                s = self.R.def_line.get(x.__code__.co_firstlineno, 'other')
            return s
        if isinstance(x, type) and x.__name__ in self.R.class_site:
            return self.R.class_site[x.__name__]
        if isinstance(x, types.ModuleType) and hasattr(x, '_vsite'):
            return x._vsite
        if isinstance(x, tuple) and len(x) == 1:
            return self.site_of(x[0])
        if isinstance(x, dict) and '_vkw' in x:
            return self.site_of(x['_vkw'])
        return 'other'

    def r(self, rid, x):
        self.obs[-1] = [rid, self.site_of(x)]
        return x

    def f(self, site, fn):
        fn._vsite = site
        return fn

    def deco(self, x):
        return lambda f: f

    def base(self, x):
        return object

    def meta(self, x):
        return type

    def t(self, *a):
        return True

    def it(self, site, _e):
        trips = 0
        while True:
            go = self.choose(2) if trips < 2 else self.choose(1, forced=0)
            if not go:
                return
            trips += 1
            yield prog.Token(site)

    def it1(self, site, _e):
        # the iterable of a comprehension: one item or none
        return [prog.Token(site)] if self.choose(2) else []

    def c(self, x):
        self.tick()
        if not isinstance(x, types.FunctionType) or self.ncalls >= MAXCALLS:
            return None
        site = self.site_of(x)
        ps = self.R.params.get(site)
        if ps is None:
            return None
        self.ncalls += 1
        args, kwargs = [], {}
        for form, n, s in ps:
            if form in ('posonly', 'pos', 'posdef'):
                args.append(prog.Token(s))
        for form, n, s in ps:
            if form == 'var':
                args.append(prog.Token(s))
            elif form in ('kwonly', 'kwdef'):
                kwargs[n] = prog.Token(s)
            elif form == 'kw':
                kwargs['_vkw'] = prog.Token(s)
        res = x(*args, **kwargs)
        if isinstance(res, types.CoroutineType):
            try:
                res.send(None)
            except StopIteration:
                pass
        return None


class _TokMods(types.ModuleType):
    def __getattr__(self, name):
        if name.startswith('t') and name[1:].isdigit():
            return prog.Token(int(name[1:]))
        raise AttributeError(name)


def install_modules(R):
    import sys
    import re
    added = []
    for m in re.finditer(r'import vm(\d+) as', R.source):
        mod = types.ModuleType('vm' + m.group(1))
        mod._vsite = int(m.group(1))
        sys.modules[mod.__name__] = mod
        added.append(mod.__name__)
    sys.modules['vmods'] = _TokMods('vmods')
    added.append('vmods')
    for name, sites in R.star_sites.items():
        mod = types.ModuleType(name)
        for n, st_ in sites.items():
            setattr(mod, n, prog.Token(st_))
        mod.__all__ = sorted(sites)
        sys.modules[name] = mod
        added.append(name)
    import importlib
    R.std_vals = []
    for name, sites in R.std_stars.items():
        if name not in sys.modules:
            added.append(name)      # forgotten again after the run: supp must not find it loaded because the reference run loaded it
        mod = importlib.import_module(name)
        R.std_vals.extend((getattr(mod, n), st_) for n, st_ in sites.items())
    return added


def run_once(code, script, R):
    import builtins
    import sys
    o = MOracle(script, R)
    builtins._vo = o
    ns = {'__name__': '_vmod'}
    added = install_modules(R)
    try:
        exec(code, ns)
    except NameError:
        o.outcome = 'exc'
    except prog.StopRun:
        o.outcome = 'overrun'
    except RecursionError:
        o.outcome = 'overrun'
    finally:
        del builtins._vo
        for m in added:
            sys.modules.pop(m, None)
    return o


def enumerate_cpython(R, limit=600):
    """decision DFS: all executions as (decisions, observations, outcome); None if over the limit"""
    code = compile(R.source, '<mscope>', 'exec')
    results = []
    stack = [[]]
    while stack:
        script = stack.pop()
        o = run_once(code, script, R)
        if o.outcome == 'overrun' or len(results) >= limit:
            return None
        for i in range(len(script), len(o.dec)):
            for alt in range(1, o.arity[i]):
                stack.append(o.dec[:i] + [alt])
        results.append((list(o.dec), [[a, (-1 if b == 'other' else b)] for a, b in o.obs], o.outcome))
    return results


def mentions(body):
    """every identifier a body mentions anywhere (reads, bindings, declarations), nested scopes included"""
    out = set()
    for s in body:
        k = s['k']
        for key in ('atoms', 'test', 'iter', 'cond', 'elt', 'decos', 'ret', 'bases', 'kw'):
            for a in s.get(key) or []:
                out.add(a[0])
        if 'name' in s:
            out.add(s['name'])
        if s['k'] == 'star':
            out |= {n for n, _ in s['names']}
        if s.get('walrus'):
            out.add(s['walrus'][0])
        if s.get('wlam'):
            out.add(s['wlam']['name'])
            for a in s['wlam']['atoms']:
                out.add(a[0])
        for p in s.get('params') or []:
            out.add(p[1])
            for a in p[3] + p[4]:
                out.add(a[0])
        out |= set(s.get('gl') or []) | set(s.get('nl') or [])
        for key in ('body', 'orelse'):
            if s.get(key):
                out |= mentions(s[key])
    return out


def pep709_corner(body, infunc=False, params=()):
    """CPython 3.12 inlines comprehensions (PEP 709): the target of a comprehension written in a function F becomes a
    fast local of F.  When F does not bind that name itself, every other mention of it inside F - in a nested function
    (free / nonlocal reference), in ANOTHER comprehension of F, in F's own statements - may denote F's (mostly unbound)
    slot instead of an outer variable (3.12.1: NameError where 3.11 reads the outer variable).  Programs that depend on
    that corner are outside the model: a comprehension target of F that F does not bind must not be mentioned anywhere
    else in F."""
    def comps(b):
        out = []
        for s in b:
            if s['k'] == 'comp':
                out.append(s)
            elif s['k'] in ('if', 'for'):
                out += comps(s['body']) + comps(s.get('orelse') or [])
        return out

    def mention_count(b, name, skip):
        """mentions of `name` in the body b, nested scopes included, the comprehension `skip` excluded"""
        n = 0
        for s in b:
            if s is skip:
                # its own target and inner reads do not count, its first iterable (evaluated in F) does
                n += sum(1 for a in s['iter'] if a[0] == name)
                continue
            n += 1 if name in mentions([dict(s, body=[], orelse=[])] if s['k'] in ('if', 'for') else [s]) else 0
            if s['k'] in ('if', 'for'):
                n += mention_count(s['body'], name, skip) + mention_count(s.get('orelse') or [], name, skip)
        return n
    if infunc:
        own = own_bound(body) | set(params)
        for c in comps(body):
            t = c['name']
            if t not in own and mention_count(body, t, c) > 0:
                return True
    for s in body:
        if s['k'] == 'def' and pep709_corner(s['body'], True, [p[1] for p in s['params']]):
            return True
        if s['k'] == 'class' and pep709_corner(s['body'], False):
            return True
        if s['k'] in ('if', 'for'):
            if pep709_corner(s['body'], False) or pep709_corner(s.get('orelse') or [], False):
                return True
    return False


def binding_positions(source):
    """[(line, col, name, kind)] of every binding occurrence, from the rendered text"""
    import ast
    import re
    lines = source.split('\n')
    out = []
    for n in ast.walk(ast.parse(source)):
        if isinstance(n, ast.Name) and isinstance(n.ctx, ast.Store):
            out.append((n.lineno, n.col_offset, n.id, 'name'))
        elif isinstance(n, ast.arg):
            out.append((n.lineno, n.col_offset, n.arg, 'param'))
        elif isinstance(n, ast.alias):
            if n.asname:
                out.append((n.end_lineno, n.end_col_offset - len(n.asname), n.asname, 'alias'))
            elif n.name == '*':
                out.append((n.lineno, n.col_offset, '*', 'star'))
        elif isinstance(n, (ast.FunctionDef, ast.AsyncFunctionDef, ast.ClassDef)):
            m = re.search(r'\b(?:def|class)\s+(%s)\b' % re.escape(n.name), lines[n.lineno - 1])
            out.append((n.lineno, m.start(1), n.name, 'def'))
    return out


def site_positions(body, source):
    """site -> (line, col): the generator's binding sites located in the text (one statement per line, so (line, name, kind)
    identifies an occurrence)"""
    occ = {}
    for ln, col, nm, kind in binding_positions(source):
        occ.setdefault((ln, nm, kind), []).append(col)
    pos = {}
    names = {}
    line = [0]

    def take(ln, nm, kind, site, bound=None):
        c = occ.get((ln, nm, kind))
        assert c and len(c) == 1, (ln, nm, kind, c)
        pos[site] = (ln, c[0])
        names[site] = bound or nm

    def blk(b):
        if not b:
            line[0] += 1
        for s in b:
            st(s)

    def st(s):
        k = s['k']
        line[0] += 1
        ln = line[0]
        if k in ('assign',):
            take(ln, s['name'], 'name', s['site'])
        elif k == 'imp':
            take(ln, s['name'], 'alias', s['site'])
        elif k == 'star':
            for n, st_ in s['names']:
                take(ln, '*', 'star', st_, bound=n)
        elif k in ('read', 'call', 'return'):
            pass
        elif k == 'if':
            blk(s['body'])
            if s['orelse']:
                line[0] += 1
                blk(s['orelse'])
        elif k == 'for':
            take(ln, s['name'], 'name', s['site'])
            blk(s['body'])
        elif k == 'def':
            line[0] += len(s['decos'])
            ln = line[0]
            take(ln, s['name'], 'def', s['site'])
            for p in s['params']:
                take(ln, p[1], 'param', p[2])
            line[0] += len(s['gl']) + len(s['nl'])
            blk(s['body'])
        elif k == 'lambda':
            take(ln, s['name'], 'name', s['site'])
            for p in s['params']:
                take(ln, p[1], 'param', p[2])
        elif k == 'class':
            line[0] += len(s['decos'])
            take(line[0], s['name'], 'def', s['site'])
            blk(s['body'])
        elif k == 'comp':
            take(ln, s['name'], 'name', s['site'])
            if s.get('walrus'):
                take(ln, s['walrus'][0], 'name', s['walrus'][1])
            if s.get('wlam'):
                take(ln, s['wlam']['name'], 'name', s['wlam']['site'])
    blk(body)
    return pos, names


def generate(rng, max_depth=3):
    """one valid program: (body, Rendered, nodes, scopes) or None"""
    g = MGen(rng, max_depth=max_depth, names=rng.choice([NAMES, NAMES, ['a', 'b'], ['a', 'b', 'c']]))
    body = g.program()
    fix_nonlocals(body, rng, None, g)
    if pep709_corner(body):
        return None
    R = render(body)
    try:
        compile(R.source, '<mscope>', 'exec')
    except SyntaxError:
        return None
    nodes, scopes = reduce_program(body)
    R.site_pos, R.site_name = site_positions(body, R.source)
    return body, R, nodes, scopes
