"""One-body Python programs for C01-C04, C13, C17: generator (IR), renderer, reduction
to PyBind.tla nodes, and the CPython oracle (decision-forcing execution, decision DFS).

IR statements (dicts, 'k' = kind):
  assign   targets=[pattern,...] (chained, left to right), value=expr
  ann      name, site, value=expr|None
  expr     value=expr
  if       test=expr, body, orelse        (orelse consisting of a single `if` is rendered as elif)
  while    test=expr, body, orelse, lid
  for      target=pattern, iter=expr, body, orelse
  try      body, handlers=[{kinds, name, site, type=reads of the type expression, body}], orelse, final
  with     items=[(expr, pattern|None)], body
  mayraise kinds ; raise kind ; return value=expr|None ; break ; continue ; pass
pattern: ('n', name, site) | ('t', [patterns]) | ('s', name, site)   (starred)
expr:    list of atoms evaluated left to right: ('r', name, rid) read | ('w', name, site) walrus binding a fresh token

Rendering conventions (helpers live in builtins under the reserved prefix `_v`):
  _vo.b(site)          value token;  _vo.tv(n)  tuple of n fresh tokens (sites are attached by the targets)
  _vo.r(_vo.p(rid), x) read of x observed as rid (p records the attempt, r the value)
  _vo.e(...)           expression wrapper (evaluates its arguments left to right)
  _vo.d(...)           decision of an `if`; _vo.w(lid, ...) of a `while`; _vo.it(...) iterable of a `for`
  _vo.q(kinds)         may raise;  _vo.cm(...) context manager
"""
import random

NAMES = ['a', 'b', 'c']
KINDS = [1, 2, 3]


# ---------------------------------------------------------------------------
# generator

class Gen(object):
    def __init__(self, rng, flavour='func', c03=False, names=None, allow_jumps=True, depth=3, globals_=(), builtins_=()):
        self.rng = rng
        self.flavour = flavour
        self.c03 = c03                  # canonical fragment of C03 (implies the C02 restrictions)
        self.c02 = c03
        self.names = list(names or NAMES)
        self.allow_jumps = allow_jumps and not c03
        self.depth = depth
        self.lid = 0
        self.extra_reads = list(globals_) + list(builtins_)
        self.hnames = ['e1', 'e2']      # except-clause names: a separate alphabet in the C03 fragment
        self.maybe = set()              # names bound somewhere textually before the point being generated
        self.prologue = 0.55
        self.single = False             # inject one isolated binding of `z` (see inject_single)

    def name(self):
        n = self.rng.choice(self.names)
        self.maybe.add(n)
        return n

    def read_name(self):
        # mostly names that may be bound by now: keeps strict executions from ending at the first read while
        # leaving every name unbound before its first binding construct
        if self.maybe and self.rng.random() < 0.85:
            return self.rng.choice(sorted(self.maybe))
        return self.rng.choice(self.names)

    def expr(self, lo=0, hi=2, walrus=True):
        atoms = []
        for _ in range(self.rng.randint(lo, hi)):
            if walrus and self.rng.random() < 0.08:
                atoms.append(('w', self.name(), 0))
            else:
                if self.extra_reads and self.rng.random() < 0.12:
                    atoms.append(('r', self.rng.choice(self.extra_reads), 0))
                else:
                    atoms.append(('r', self.read_name(), 0))
        return atoms

    def pattern(self, top=True):
        r = self.rng.random()
        if r < 0.7 or not top:
            return ('n', self.name(), 0)
        n = self.rng.randint(2, 3)
        names = self.rng.sample(self.names, min(n, len(self.names)))
        self.maybe.update(names)
        pats = [('n', x, 0) for x in names]
        if self.rng.random() < 0.3:
            i = self.rng.randrange(len(pats))
            pats[i] = ('s', pats[i][1], 0)
        return ('t', pats)

    def block(self, d, inloop, lo=1, hi=3):
        return [self.stmt(d, inloop) for _ in range(self.rng.randint(lo, hi))]

    def stmt(self, d, inloop):
        r = self.rng.random()
        if d <= 0 or r < 0.22:
            k = self.rng.random()
            if k < 0.75:
                targets = [self.pattern()]
                if self.rng.random() < 0.15:
                    other = [n for n in self.names if n not in pat_names(targets[0])]
                    if other:
                        targets.append(('n', self.rng.choice(other), 0))
                        self.maybe.add(targets[-1][1])
                return {'k': 'assign', 'targets': targets, 'value': self.expr(0, 2)}
            if k < 0.9:
                return {'k': 'ann', 'name': self.name(), 'site': 0, 'value': self.expr(0, 1) if self.rng.random() < 0.7 else None}
            return {'k': 'assign', 'targets': [('n', self.name(), 0)], 'value': self.expr(1, 2)}
        if r < 0.32:
            return {'k': 'expr', 'value': self.expr(1, 3)}
        if r < 0.36:
            # body if (name := value) else orelse: the test is evaluated first, its walrus is visible in both arms
            nm = self.name()
            self.maybe.add(nm)
            # (the arms may bind names of their own: each arm is a path of its own)
            arm = [('r', nm, 0)] + self.expr(0, 1)
            other = self.expr(0, 2)
            if self.rng.random() < 0.5:
                other.append(('r', nm, 0))
            return {'k': 'ifexp', 'name': nm, 'site': 0, 'body': arm, 'orelse': other}
        if r < 0.385:
            # cond and (name := value)  /  cond or (name := value): the walrus runs only when the left operand lets it
            nm = self.name()
            self.maybe.add(nm)
            return {'k': 'boolw', 'name': nm, 'site': 0, 'op': self.rng.choice(['and', 'or']), 'left': [a for a in self.expr(0, 1) if a[0] == 'r']}
        if r < 0.42:
            # a decorated def / class statement: decorator expressions are read in the enclosing body, then the name is bound
            nm = self.name()
            self.maybe.add(nm)
            return {'k': 'defstmt', 'name': nm, 'site': 0, 'decos': self.expr(0, 2), 'cls': self.rng.random() < 0.3}
        if r < 0.50:
            if self.c03:
                return {'k': 'expr', 'value': self.expr(1, 2)}
            return {'k': 'mayraise', 'kinds': self.rng.sample(KINDS, self.rng.randint(1, 2))}
        if r < 0.56:
            if not self.allow_jumps:
                return {'k': 'expr', 'value': self.expr(1, 2)}
            if inloop and self.rng.random() < 0.7:
                return {'k': self.rng.choice(['break', 'continue'])}
            if self.flavour == 'func' and self.rng.random() < 0.6:
                return {'k': 'return', 'value': self.expr(0, 1) if self.rng.random() < 0.5 else None}
            return {'k': 'raise', 'kind': self.rng.choice(KINDS)}
        if r < 0.70:
            s = {'k': 'if', 'test': self.expr(0, 2), 'body': self.block(d - 1, inloop), 'orelse': []}
            q = self.rng.random()
            if q < 0.45:
                s['orelse'] = self.block(d - 1, inloop)
            elif q < 0.65:
                s['orelse'] = [{'k': 'if', 'test': self.expr(0, 1), 'body': self.block(d - 1, inloop, 1, 2),
                                'orelse': self.block(d - 1, inloop, 1, 2) if self.rng.random() < 0.6 else []}]
            return s
        if r < 0.78:
            self.lid += 1
            lid = self.lid
            return {'k': 'while', 'test': self.expr(0, 2), 'body': self.block(d - 1, True), 'lid': lid,
                    'orelse': self.block(d - 1, inloop, 1, 2) if self.rng.random() < 0.35 else []}
        if r < 0.86:
            return {'k': 'for', 'target': self.pattern(), 'iter': self.expr(0, 2), 'body': self.block(d - 1, True),
                    'orelse': self.block(d - 1, inloop, 1, 2) if self.rng.random() < 0.35 else []}
        if r < 0.92:
            items = []
            for _ in range(self.rng.randint(1, 2)):
                items.append((self.expr(0, 1), self.pattern() if self.rng.random() < 0.7 else None))
            return {'k': 'with', 'items': items, 'body': self.block(d - 1, inloop)}
        return self.try_stmt(d, inloop)

    def try_stmt(self, d, inloop):
        body = self.block(d - 1, inloop)
        handlers = []
        for _ in range(self.rng.choice([0, 1, 1, 2, 2, 3])):
            kinds = self.rng.choice([[], [1], [2], [3], [1, 2], [2, 3], [1], [2]])
            nm = self.rng.choice((self.hnames if self.c03 else self.names) + ['', ''])
            # now and then the clause's type expression reads names (`except mod.Error:` after `import mod` in the try body)
            ty = [a for a in self.expr(1, 2) if a[0] == 'r'] if self.rng.random() < 0.3 else []
            handlers.append({'kinds': kinds, 'name': nm, 'site': 0, 'type': ty, 'body': self.block(d - 1, inloop, 1, 2)})
        if self.c02 or self.c03:
            # every handler live; exceptions only at the first / last statement of the body and always caught
            live, seen = [], set()
            for h in handlers:
                ks = set(h['kinds'] or KINDS)
                if ks - seen:
                    live.append(h)
                    seen |= ks
            handlers = live
            if handlers:
                caught = sorted(seen)
                body = [{'k': 'mayraise', 'kinds': caught}] + body + [{'k': 'mayraise', 'kinds': caught}]
        final = self.block(d - 1, inloop, 1, 2) if (not handlers or self.rng.random() < 0.5) else []
        orelse = self.block(d - 1, inloop, 1, 2) if (handlers and self.rng.random() < 0.5) else []
        return {'k': 'try', 'body': body, 'handlers': handlers, 'orelse': orelse, 'final': final}

    def program(self):
        # a prologue binding some of the names keeps executions from ending at the first read
        body = []
        for n in self.names:
            if self.rng.random() < self.prologue:
                self.maybe.add(n)
                body.append({'k': 'assign', 'targets': [('n', n, 0)], 'value': []})
        if not getattr(self, 'tiny', False):
            body += self.block(self.depth, False, 2, 4)
        if self.single:
            inject_single(body, self.rng)
        if getattr(self, 'multi', False):
            inject_multiway(body, self.rng)
        if getattr(self, 'blockfirst', False):
            inject_blockfirst(body, self.rng)
        if getattr(self, 'loops', False):
            inject_loops(body, self.rng)
        if getattr(self, 'withs', False):
            inject_with(body, self.rng)
        return body


def blocks_of(body):
    """every statement list of the tree: [(block, [enclosing blocks...], guarded)] where guarded marks a try body that
    begins and ends with a mayraise (canonical form of the C02/C03 fragments: nothing may be put outside the guards)"""
    out = []

    def guarded(b):
        return len(b) >= 2 and b[0]['k'] == 'mayraise' and b[-1]['k'] == 'mayraise'

    def rec(b, chain, g):
        out.append((b, chain, g))
        for s in b:
            k = s['k']
            subs = []
            if k in ('if', 'while', 'for'):
                subs = [(s['body'], False), (s['orelse'], False)]
            elif k == 'with':
                subs = [(s['body'], False)]
            elif k == 'try':
                subs = [(s['body'], bool(s['handlers']) and guarded(s['body']))] + [(h['body'], False) for h in s['handlers']]
                subs += [(x, False) for x in (s['orelse'], s['final']) if x]
            for sub, gg in subs:
                rec(sub, chain + [(b, g)], gg)
    rec(body, [], False)
    return out


def inject_single(body, rng, name='z'):
    """bind `name` in exactly one randomly chosen place of the tree and read it right after the binding, at the end
    of every enclosing block and at the very end: isolates each (binding place, read place) pair, which is what
    shows a lost path in the analysis (C01) - the other names are usually rebound so often that they stay visible"""
    target, chain, g = rng.choice(blocks_of(body))
    lo, hi = (1, len(target) - 1) if g else (0, len(target))
    pos = rng.randint(lo, hi)
    form = rng.random()
    if form < 0.7:
        bind = {'k': 'assign', 'targets': [('n', name, 0)], 'value': []}
    elif form < 0.85:
        bind = {'k': 'expr', 'value': [('w', name, 0)]}
    else:
        bind = {'k': 'with', 'items': [([], ('n', name, 0))], 'body': [{'k': 'expr', 'value': [('r', name, 0)]}]}
    target.insert(pos, bind)
    target.insert(pos + 1, {'k': 'expr', 'value': [('r', name, 0)]})

    def put_last(b, gg):
        b.insert(len(b) - 1 if gg else len(b), {'k': 'expr', 'value': [('r', name, 0)]})
    for b, gg in chain:
        put_last(b, gg)
    if rng.random() < 0.5 and target is not body:
        put_last(target, g)
    return body


def inject_multiway(body, rng, name='y'):
    """append a join with three or more predecessors (a try with several handlers and an else clause, or an if / elif chain)
    whose clauses bind `name` independently, and read it afterwards: the merge of more than two tables is where a name
    missing from exactly one (middle) predecessor shows"""
    def bind():
        return {'k': 'assign', 'targets': [('n', name, 0)], 'value': []}

    def clause():
        return [bind()] if rng.random() < 0.55 else [{'k': 'pass'}]
    read = {'k': 'expr', 'value': [('r', name, 0)]}
    if rng.random() < 0.6:
        kinds = rng.sample(KINDS, rng.randint(2, 3))
        handlers = [{'kinds': [k], 'name': '', 'site': 0, 'body': clause()} for k in kinds]
        tb = [{'k': 'mayraise', 'kinds': sorted(kinds)}] + clause() + [{'k': 'mayraise', 'kinds': sorted(kinds)}]
        st = {'k': 'try', 'body': tb, 'handlers': handlers, 'orelse': clause() if rng.random() < 0.7 else [],
              'final': [dict(read)] if rng.random() < 0.3 else []}
    else:
        st = {'k': 'if', 'test': [], 'body': clause(), 'orelse': [
            {'k': 'if', 'test': [], 'body': clause(), 'orelse': [
                {'k': 'if', 'test': [], 'body': clause(), 'orelse': clause() if rng.random() < 0.6 else []}]}]}
    if rng.random() < 0.3:
        body.append(bind())
    body.append(st)
    body.append(read)
    return body


def inject_loops(body, rng, name='v'):
    """append nested loops where the INNER loop (a while, reachable in a region graph only through its own back edge) binds
    `name` and the read sits in the outer loop body before it - reached on a later trip through the OUTER back edge - and
    after the outer loop"""
    read = {'k': 'expr', 'value': [('r', name, 0)]}
    inner = {'k': 'while', 'test': [], 'body': [{'k': 'assign', 'targets': [('n', name, 0)], 'value': []}], 'lid': 901, 'orelse': []}
    if rng.random() < 0.3:
        inner = {'k': 'for', 'target': ('n', 'u', 0), 'iter': [], 'body': [{'k': 'assign', 'targets': [('n', name, 0)], 'value': []}], 'orelse': []}
    # (the read before the inner loop is guarded: on the first trip the name is still unbound, and a failed read ends the execution)
    ob = [{'k': 'if', 'test': [], 'body': [dict(read)], 'orelse': []}, inner] + ([dict(read)] if rng.random() < 0.4 else [])
    if rng.random() < 0.5:
        outer = {'k': 'while', 'test': [], 'body': ob, 'lid': 900, 'orelse': []}
    else:
        outer = {'k': 'for', 'target': ('n', 'u', 0), 'iter': [], 'body': ob, 'orelse': []}
    body.append(outer)
    body.append(dict(read))
    return body


def inject_with(body, rng, names=('s', 't')):
    """append a with statement of several items where a later item's context expression reads the target an earlier item has
    just bound (and nothing else binds it): the target must be visible inside the header, from its own item on"""
    a, b = names
    items = [([], ('n', a, 0)), ([('r', a, 0)], ('n', b, 0))]
    if rng.random() < 0.4:
        items.append(([('r', b, 0), ('r', a, 0)], None))
    body.append({'k': 'with', 'items': items, 'body': [{'k': 'expr', 'value': [('r', a, 0), ('r', b, 0)]}]})
    return body


def inject_blockfirst(body, rng, name='w'):
    """append a block whose header binds `name` (except .. as, for, with .. as) and whose FIRST statement is a decorated
    definition reading it in the decorator: the binding must be visible from the very start of the block, decorators included"""
    first = {'k': 'defstmt', 'name': rng.choice(['u', name]), 'site': 0, 'decos': [('r', name, 0)], 'cls': rng.random() < 0.3}
    inner = [first, {'k': 'expr', 'value': [('r', name, 0)]}]
    form = rng.random()
    if form < 0.45:
        k = rng.choice(KINDS)
        st = {'k': 'try', 'body': [{'k': 'mayraise', 'kinds': [k]}, {'k': 'pass'}, {'k': 'mayraise', 'kinds': [k]}],
              'handlers': [{'kinds': [k], 'name': name, 'site': 0, 'body': inner}], 'orelse': [], 'final': []}
    elif form < 0.75:
        st = {'k': 'for', 'target': ('n', name, 0), 'iter': [], 'body': inner, 'orelse': []}
    else:
        st = {'k': 'with', 'items': [([], ('n', name, 0))], 'body': inner}
    body.append(st)
    return body


def pat_names(p):
    if p[0] in ('n', 's'):
        return [p[1]]
    out = []
    for q in p[1]:
        out += pat_names(q)
    return out


# ---------------------------------------------------------------------------
# numbering (sites and read ids in textual order), bound names

def walk_patterns(p, f):
    if p[0] in ('n', 's'):
        return (p[0], p[1], f('bind', p[1]))
    return ('t', [walk_patterns(q, f) for q in p[1]])


def number(body):
    """assign binding-site ids and read ids in textual order (mutates a copy); returns (body, nsites, nreads)"""
    counter = {'bind': 0, 'read': 0}

    def f(kind, name):
        counter[kind] += 1
        return counter[kind]

    def ex(e):
        return [(a[0], a[1], f('read' if a[0] == 'r' else 'bind', a[1])) for a in e]

    def blk(b):
        return [st(s) for s in b]

    def st(s):
        s = dict(s)
        k = s['k']
        if k == 'assign':
            # textual order: targets first, then the value
            s['targets'] = [walk_patterns(p, f) for p in s['targets']]
            s['value'] = ex(s['value'])
        elif k == 'ann':
            s['site'] = f('bind', s['name']) if s['value'] is not None else 0
            s['value'] = ex(s['value']) if s['value'] is not None else None
        elif k in ('expr', 'return'):
            s['value'] = ex(s['value']) if s.get('value') is not None else None
        elif k == 'defstmt':
            s['decos'] = ex(s['decos'])
            s['site'] = f('bind', s['name'])
        elif k == 'ifexp':
            s['body'] = ex(s['body'])
            s['site'] = f('bind', s['name'])
            s['orelse'] = ex(s['orelse'])
        elif k == 'boolw':
            s['left'] = ex(s['left'])
            s['site'] = f('bind', s['name'])
        elif k == 'if':
            s['test'] = ex(s['test'])
            s['body'] = blk(s['body'])
            s['orelse'] = blk(s['orelse'])
        elif k == 'while':
            s['test'] = ex(s['test'])
            s['body'] = blk(s['body'])
            s['orelse'] = blk(s['orelse'])
        elif k == 'for':
            s['target'] = walk_patterns(s['target'], f)
            s['iter'] = ex(s['iter'])
            s['body'] = blk(s['body'])
            s['orelse'] = blk(s['orelse'])
        elif k == 'with':
            s['items'] = [(ex(e), walk_patterns(p, f) if p else None) for e, p in s['items']]
            s['body'] = blk(s['body'])
        elif k == 'try':
            s['body'] = blk(s['body'])
            hs = []
            for h in s['handlers']:
                h = dict(h)
                h['type'] = ex(h.get('type') or [])
                h['site'] = f('bind', h['name']) if h['name'] else 0
                h['body'] = blk(h['body'])
                hs.append(h)
            s['handlers'] = hs
            s['orelse'] = blk(s['orelse'])
            s['final'] = blk(s['final'])
        return s
    out = blk(body)
    return out, counter['bind'], counter['read']


def bound_names(body):
    out = set()

    def ex(e):
        for a in e or []:
            if a[0] == 'w':
                out.add(a[1])

    def blk(b):
        for s in b:
            k = s['k']
            if k == 'assign':
                for p in s['targets']:
                    out.update(pat_names(p))
                ex(s['value'])
            elif k == 'ann':
                if True:
                    out.add(s['name'])      # an annotated name is a local of a function even without a value
                ex(s['value'])
            elif k in ('expr', 'return'):
                ex(s.get('value'))
            elif k == 'defstmt':
                ex(s['decos'])
                out.add(s['name'])
            elif k == 'ifexp':
                ex(s['body'])
                ex(s['orelse'])
                out.add(s['name'])
            elif k == 'boolw':
                out.add(s['name'])
            elif k in ('if', 'while'):
                ex(s['test'])
                blk(s['body'])
                blk(s['orelse'])
            elif k == 'for':
                out.update(pat_names(s['target']))
                ex(s['iter'])
                blk(s['body'])
                blk(s['orelse'])
            elif k == 'with':
                for e, p in s['items']:
                    ex(e)
                    if p:
                        out.update(pat_names(p))
                blk(s['body'])
            elif k == 'try':
                blk(s['body'])
                for h in s['handlers']:
                    if h['name']:
                        out.add(h['name'])
                    blk(h['body'])
                blk(s['orelse'])
                blk(s['final'])
    blk(body)
    return out


# ---------------------------------------------------------------------------
# renderer

class Rendered(object):
    def __init__(self):
        self.lines = []
        self.site_pos = {}     # site -> (line, name)
        self.read_pos = {}     # rid -> (line, col, name)


def render(body, flavour='func', pre=None, layout=None):
    """source text + position tables.  pre: list of (name, site) bound at module level before the body
    (func / class flavour).  One statement per line (layout variations are C13's business)."""
    R = Rendered()
    out = R.lines

    def atom(a, line, col):
        """returns text; records positions given the column where the text starts"""
        if a[0] == 'r':
            head = '_vo.r(_vo.p(%d), ' % a[2]
            R.read_pos[a[2]] = (line, col + len(head), a[1])
            return head + a[1] + ')'
        head = '('
        R.site_pos[a[2]] = (line, a[1])
        return '(%s := _vo.b(%d))' % (a[1], a[2])

    def expr(e, line, col, fn='_vo.e'):
        text = fn + '('
        parts = []
        c = col + len(text)
        for a in e:
            t = atom(a, line, c)
            parts.append(t)
            c += len(t) + 2
        return text + ', '.join(parts) + ')'

    def pattern(p, line):
        if p[0] == 'n':
            R.site_pos[p[2]] = (line, p[1])
            return p[1]
        if p[0] == 's':
            R.site_pos[p[2]] = (line, p[1])
            return '*' + p[1]
        return '(' + ', '.join(pattern(q, line) for q in p[1]) + (',)' if len(p[1]) == 1 else ')')

    def pat_sites(p):
        """value-side description of a pattern: nested lists of site ids, starred as negative"""
        if p[0] == 'n':
            return p[2]
        if p[0] == 's':
            return -p[2]
        return [pat_sites(q) for q in p[1]]

    def blk(b, ind):
        if not b:
            out.append('    ' * ind + 'pass')
        for s in b:
            st(s, ind)

    def st(s, ind, elif_=False):
        pad = '    ' * ind
        line = len(out) + 1
        k = s['k']
        if k == 'assign':
            lhs = ' = '.join(pattern(p, line) for p in s['targets'])
            sites = [pat_sites(p) for p in s['targets']]
            head = pad + lhs + ' = '
            out.append(head + expr(s['value'], line, len(head), fn='_vo.v(%r, _vo.e' % (sites,)) + ')')
        elif k == 'ann':
            if s['value'] is None:
                out.append(pad + '%s: int' % s['name'])
            else:
                R.site_pos[s['site']] = (line, s['name'])
                head = pad + '%s: int = ' % s['name']
                out.append(head + expr(s['value'], line, len(head), fn='_vo.v(%r, _vo.e' % ([s['site']],)) + ')')
        elif k == 'expr':
            out.append(pad + expr(s['value'], line, len(pad)))
        elif k == 'ifexp':
            text = pad + expr(s['body'], line, len(pad))
            R.site_pos[s['site']] = (line, s['name'])
            text += ' if _vo.d((%s := _vo.b(%d))) else ' % (s['name'], s['site'])
            out.append(text + expr(s['orelse'], line, len(text)))
        elif k == 'boolw':
            R.site_pos[s['site']] = (line, s['name'])
            head = pad + '_vo.e('
            left = expr(s['left'], line, len(head), fn='_vo.d')
            out.append(head + left + ' %s (%s := _vo.b(%d)))' % (s['op'], s['name'], s['site']))
        elif k == 'defstmt':
            # the decorator replaces the function / class by the token of this binding site
            head = pad + '@_vo.dk(%d, ' % s['site']
            out.append(head + expr(s['decos'], line, len(head)) + ')')
            R.site_pos[s['site']] = (line + 1, s['name'])
            out.append(pad + ('class %s: pass' % s['name'] if s['cls'] else 'def %s(): pass' % s['name']))
        elif k == 'return':
            out.append(pad + ('return ' + expr(s['value'], line, len(pad) + 7) if s['value'] is not None else 'return'))
        elif k == 'pass':
            out.append(pad + 'pass')
        elif k in ('break', 'continue'):
            out.append(pad + k)
        elif k == 'mayraise':
            out.append(pad + '_vo.q(%r)' % (s['kinds'],))
        elif k == 'raise':
            out.append(pad + 'raise _vE[%d]()' % s['kind'])
        elif k == 'if':
            kw = 'elif ' if elif_ else 'if '
            head = pad + kw
            out.append(head + expr(s['test'], line, len(head), fn='_vo.d') + ':')
            blk(s['body'], ind + 1)
            oe = s['orelse']
            if len(oe) == 1 and oe[0]['k'] == 'if':
                st(oe[0], ind, elif_=True)
            elif oe:
                out.append(pad + 'else:')
                blk(oe, ind + 1)
        elif k == 'while':
            out.append(pad + '_vo.ws(%d)' % s['lid'])
            line = len(out) + 1
            head = pad + 'while '
            out.append(head + expr(s['test'], line, len(head), fn='_vo.w(%d, _vo.e' % s['lid']) + '):')
            blk(s['body'], ind + 1)
            if s['orelse']:
                out.append(pad + 'else:')
                blk(s['orelse'], ind + 1)
        elif k == 'for':
            tgt = pattern(s['target'], line)
            if tgt.startswith('('):
                tgt = tgt[1:-1] if not tgt.endswith(',)') else tgt[1:-1]
            head = pad + 'for ' + tgt + ' in '
            sites = pat_sites(s['target'])
            out.append(head + expr(s['iter'], line, len(head), fn='_vo.it(%r, _vo.e' % (sites,)) + '):')
            blk(s['body'], ind + 1)
            if s['orelse']:
                out.append(pad + 'else:')
                blk(s['orelse'], ind + 1)
        elif k == 'with':
            head = pad + 'with '
            parts = []
            c = len(head)
            for e, p in s['items']:
                sites = pat_sites(p) if p else 0
                pre_ = '_vo.cm(%r, ' % (sites,)
                t = expr(e, line, c, fn=pre_ + '_vo.e') + ')'
                if p:
                    t += ' as ' + pattern(p, line)
                parts.append(t)
                c += len(t) + 2
            out.append(head + ', '.join(parts) + ':')
            blk(s['body'], ind + 1)
        elif k == 'try':
            out.append(pad + 'try:')
            blk(s['body'], ind + 1)
            for h in s['handlers']:
                line = len(out) + 1
                cls = '_vEB' if not h['kinds'] else '(' + ', '.join('_vE[%d]' % x for x in h['kinds']) + ',)'
                if h.get('type'):
                    head = pad + 'except _vo.ht(' + cls + ', '
                    cls = '_vo.ht(' + cls + ', ' + expr(h['type'], line, len(head)) + ')'
                if h['name']:
                    R.site_pos[h['site']] = (line, h['name'])
                out.append(pad + 'except %s%s:' % (cls, (' as ' + h['name']) if h['name'] else ''))
                blk(h['body'], ind + 1)
            if s['orelse']:
                out.append(pad + 'else:')
                blk(s['orelse'], ind + 1)
            if s['final']:
                out.append(pad + 'finally:')
                blk(s['final'], ind + 1)
        else:
            raise AssertionError(k)

    for name, site in (pre or []):
        R.site_pos[site] = (len(out) + 1, name)
        out.append('%s = _vo.b(%d)' % (name, site))
    if flavour == 'func':
        out.append('def _vprog():')
        blk(body, 1)
        out.append('_vo.run(_vprog)')
    elif flavour == 'class':
        out.append('class _vProg:')
        blk(body, 1)
    else:
        blk(body, 0)
    R.source = '\n'.join(out) + '\n'
    return R


def binding_positions(source, npre, nbody):
    """(line, col) of every binding site, from the rendered text: binding occurrences (Store names incl. walrus,
    `except .. as` clauses - reported at the `except` keyword) sorted textually are the sites in numbering order;
    the module-level pre-bindings come first in the text and have the ids nbody+1.."""
    import ast
    occ = []
    tree = ast.parse(source)
    bare = {id(n.target) for n in ast.walk(tree) if isinstance(n, ast.AnnAssign) and n.value is None}
    for n in ast.walk(tree):
        if id(n) in bare:
            continue
        if isinstance(n, ast.Name) and isinstance(n.ctx, ast.Store):
            occ.append((n.lineno, n.col_offset, n.id))
        elif isinstance(n, (ast.FunctionDef, ast.ClassDef)) and n.name != '_vprog' and n.name != '_vProg':
            import re
            m = re.search(r'\b(?:def|class)\s+(%s)\b' % re.escape(n.name), source.split('\n')[n.lineno - 1])
            occ.append((n.lineno, m.start(1), n.name))
        elif isinstance(n, ast.ExceptHandler) and n.name:
            occ.append((n.lineno, n.col_offset, n.name))
    occ.sort()
    assert len(occ) == npre + nbody, (len(occ), npre, nbody)
    out = {}
    for i, o in enumerate(occ[:npre]):
        out[nbody + 1 + i] = o
    for i, o in enumerate(occ[npre:]):
        out[i + 1] = o
    return out


# ---------------------------------------------------------------------------
# reduction to PyBind.tla nodes

def reduce_nodes(body):
    nodes = [None]

    def new(**kw):
        rec = dict(k='', c=[], n='', s=0, kinds=[], hs=[])
        rec.update(kw)
        nodes.append(rec)
        return len(nodes) - 1

    def seq(ids):
        return new(k='seq', c=ids)

    def ex(e):
        ids = []
        for a in e or []:
            ids.append(new(k='read', n=a[1], s=a[2]) if a[0] == 'r' else new(k='bind', n=a[1], s=a[2]))
        return ids

    def pat(p):
        if p[0] in ('n', 's'):
            return [new(k='bind', n=p[1], s=p[2])]
        out = []
        for q in p[1]:
            out += pat(q)
        return out

    def blk(b):
        return seq([st(s) for s in b])

    def st(s):
        k = s['k']
        if k == 'assign':
            ids = ex(s['value'])
            for p in s['targets']:
                ids += pat(p)
            return seq(ids)
        if k == 'ann':
            if s['value'] is None:
                return seq([])
            return seq(ex(s['value']) + [new(k='bind', n=s['name'], s=s['site'])])
        if k == 'expr':
            return seq(ex(s['value']))
        if k == 'defstmt':
            return seq(ex(s['decos']) + [new(k='bind', n=s['name'], s=s['site'])])
        if k == 'boolw':
            # one decision: _vo.d() true -> decision 0 = the body of the if node; `and` binds then, `or` binds otherwise
            b = seq([new(k='bind', n=s['name'], s=s['site'])])
            return new(k='if', c=[seq(ex(s['left'])), b, 0] if s['op'] == 'and' else [seq(ex(s['left'])), 0, b])
        if k == 'ifexp':
            return seq([new(k='bind', n=s['name'], s=s['site']),
                        new(k='if', c=[0, seq(ex(s['body'])), seq(ex(s['orelse']))])])
        if k == 'return':
            return seq(ex(s['value']) + [new(k='return')])
        if k == 'pass':
            return seq([])
        if k in ('break', 'continue'):
            return new(k=k)
        if k == 'mayraise':
            return new(k='mayraise', kinds=list(s['kinds']))
        if k == 'raise':
            return new(k='raise', s=s['kind'])
        if k == 'if':
            return new(k='if', c=[seq(ex(s['test'])), blk(s['body']), blk(s['orelse']) if s['orelse'] else 0])
        if k == 'while':
            return new(k='while', c=[seq(ex(s['test'])), blk(s['body']), blk(s['orelse']) if s['orelse'] else 0], s=s['lid'])
        if k == 'for':
            return new(k='for', c=[seq(ex(s['iter'])), seq(pat(s['target'])), blk(s['body']), blk(s['orelse']) if s['orelse'] else 0])
        if k == 'with':
            ids = []
            for e, p in s['items']:
                ids += ex(e)
                if p:
                    ids += pat(p)
            ids.append(blk(s['body']))
            return seq(ids)
        if k == 'try':
            hs = [new(k='handler', kinds=list(h['kinds']), n=h['name'], s=h['site'],
                      c=[blk(h['body']), seq(ex(h['type'])) if h.get('type') else 0]) for h in s['handlers']]
            return new(k='try', c=[blk(s['body']), blk(s['orelse']) if s['orelse'] else 0, blk(s['final']) if s['final'] else 0], hs=hs)
        raise AssertionError(k)
    nodes.append(None)          # id 1 reserved for the root
    root = [st(s) for s in body]
    nodes[1] = dict(k='seq', c=root, n='', s=0, kinds=[], hs=[])
    return nodes[1:]


# ---------------------------------------------------------------------------
# the CPython oracle

class _VEB(Exception):
    pass


VE = {1: type('_VE1', (_VEB,), {}), 2: type('_VE2', (_VEB,), {}), 3: type('_VE3', (_VEB,), {})}


class Token(object):
    __slots__ = ('site',)

    def __init__(self, site):
        self.site = site


class StopRun(BaseException):
    pass


class Oracle(object):
    """forces the decisions of `script` (then 0s), records decisions with their arity and observations"""

    def __init__(self, script, max_steps=20000):
        self.script = script
        self.pos = 0
        self.dec = []
        self.arity = []
        self.obs = []
        self.trips = {}
        self.outcome = 'none'
        self.steps = 0
        self.max_steps = max_steps

    def tick(self):
        self.steps += 1
        if self.steps > self.max_steps:
            raise StopRun()

    def choose(self, n, forced=None):
        self.tick()
        if forced is not None:
            v = forced
            self.arity.append(1)
        else:
            v = self.script[self.pos] if self.pos < len(self.script) else 0
            self.arity.append(n)
        self.pos += 1
        self.dec.append(v)
        return v

    # values
    def b(self, site):
        return Token(site)

    def shape(self, sites):
        """value matching a pattern description: int site -> Token, negative -> element of a starred target"""
        if isinstance(sites, list):
            return tuple(self.shape(x) for x in sites)
        return Token(abs(sites))

    def v(self, sites, _e):
        # chained targets: every target list gets the same value object shape; use the first for the value and
        # let r() resolve the site by name through the per-read candidate (all targets of one value share tokens)
        val = self.shape(sites[0])
        if len(sites) > 1:
            val = MultiToken([self.shape(x) for x in sites])
        return val

    def e(self, *args):
        return None

    def dk(self, site, _e):
        return lambda f: Token(site)

    def ht(self, cls, _e):
        return cls

    def p(self, rid):
        self.tick()
        self.obs.append([rid, 0])
        return rid

    def r(self, rid, x):
        self.obs[-1] = [rid, site_of(x)]
        return x

    def d(self, *args):
        # model: decision 0 = body, 1 = orelse
        return self.choose(2) == 0

    def ws(self, lid):
        self.trips[lid] = 0

    def w(self, lid, _e):
        go = self.choose(2) if self.trips[lid] < 2 else self.choose(1, forced=0)
        if go:
            self.trips[lid] += 1
        return bool(go)

    def it(self, sites, _e):
        trips = 0
        while True:
            go = self.choose(2) if trips < 2 else self.choose(1, forced=0)
            if not go:
                return
            trips += 1
            yield self.shape(sites)

    def q(self, kinds):
        j = self.choose(len(kinds) + 1)
        if j:
            raise VE[kinds[j - 1]]()

    def cm(self, sites, _e):
        return _CM(self.shape(sites) if sites else None)

    def run(self, f):
        f()


class _CM(object):
    def __init__(self, v):
        self.v = v

    def __enter__(self):
        return self.v

    def __exit__(self, *a):
        return False


class MultiToken(object):
    """value of a chained assignment a = (b, c) = v: iterable like its tuple shape, and a token for plain names"""

    def __init__(self, shapes):
        self.shapes = shapes

    def __iter__(self):
        for s in self.shapes:
            if isinstance(s, tuple):
                return iter(s)
        raise TypeError('not iterable')

    def sites(self):
        return [s.site for s in self.shapes if isinstance(s, Token)]


def site_of(x):
    if isinstance(x, Token):
        return x.site
    if isinstance(x, MultiToken):
        return ('any', x.sites())
    if isinstance(x, list) and len(x) == 1:
        return site_of(x[0])
    if isinstance(x, BaseException):
        return 'exc'
    return 'other'


def run_once(code, script, flavour):
    import builtins
    o = Oracle(script)
    builtins._vo = o
    builtins._vE = VE
    builtins._vEB = _VEB
    ns = {'__name__': '_vmod'}
    try:
        exec(code, ns)
    except NameError:
        o.outcome = 'exc'
    except _VEB:
        o.outcome = 'exc'
    except StopRun:
        o.outcome = 'overrun'
    finally:
        del builtins._vo
    return o


def enumerate_cpython(source, flavour, limit=4000):
    """decision DFS: all executions as (decisions, observations, outcome); None if over the limit"""
    code = compile(source, '<vprog>', 'exec')
    results = []
    stack = [[]]
    while stack:
        script = stack.pop()
        o = run_once(code, script, flavour)
        if o.outcome == 'overrun' or len(results) >= limit:
            return None
        for i in range(len(script), len(o.dec)):
            for alt in range(1, o.arity[i]):
                stack.append(o.dec[:i] + [alt])
        results.append((tuple(o.dec), tuple((a, b if not isinstance(b, tuple) else ('any', tuple(b[1]))) for a, b in o.obs), o.outcome))
    return results
