"""Layout-only re-rendering of Python source at token level (C13, also C11/C12 contexts).

A layout vector (chosen by TLC from spec/Layout.tla) has the knobs
  indent   1 | 2 | 4 | 8 | "tab"        indentation unit
  join     0 | 1 | 2                    join consecutive simple statements with ';' (never / some / all)
  oneline  0 | 1                        one-line compound statements (`if x: y`) where the body is one simple statement
  brk      0 | 1 | 2                    break lines inside brackets after commas (never / some / all)
  cont     0 | 1                        backslash continuations between tokens outside brackets
  space    0 | 1 | 2                    extra spaces between tokens
  blank    0 | 1 | 2                    blank lines and comment lines between statements
The output must parse to the same AST (checked by the caller with same_ast)."""
import ast
import io
import keyword
import random
import tokenize

COMPOUND = {'if', 'elif', 'else', 'for', 'while', 'try', 'except', 'finally', 'with', 'def', 'class', 'async', 'match', 'case'}


def same_ast(a, b):
    try:
        return ast.dump(ast.parse(a)) == ast.dump(ast.parse(b))
    except SyntaxError:
        return False


def logical_lines(source):
    """[(indent_level, [tokens])] for every logical line; tokens exclude NEWLINE/NL/INDENT/DEDENT/COMMENT"""
    toks = list(tokenize.generate_tokens(io.StringIO(source).readline))
    lines = []
    cur = []
    level = 0
    for t in toks:
        if t.type == tokenize.INDENT:
            level += 1
        elif t.type == tokenize.DEDENT:
            level -= 1
        elif t.type in (tokenize.NL, tokenize.COMMENT, tokenize.ENDMARKER):
            continue
        elif t.type == tokenize.NEWLINE:
            if cur:
                lines.append([cur_level, cur])
            cur = []
        else:
            if not cur:
                cur_level = level
            cur.append(t)
    if cur:
        lines.append([cur_level, cur])
    return lines


def is_simple(toks):
    first = toks[0]
    if first.type == tokenize.OP and first.string == '@':
        return False
    if first.type == tokenize.NAME and first.string in COMPOUND:
        # `match`/`case` as identifiers are rare; treat as compound to be safe
        return False
    return True


def header_only(toks):
    """a compound header whose suite is on the following lines (ends with ':')"""
    return toks[-1].type == tokenize.OP and toks[-1].string == ':' and not is_simple(toks)


def render_tokens(toks, rng, vec, base_indent):
    """one logical line -> text (possibly several physical lines)"""
    out = []
    depth = 0
    prev = None
    for t in toks:
        s = t.string
        if prev is not None:
            sep = ''
            need = False
            # minimal separation rules
            if prev.type in (tokenize.NAME, tokenize.NUMBER, tokenize.STRING) and t.type in (tokenize.NAME, tokenize.NUMBER, tokenize.STRING):
                need = True
            if prev.type == tokenize.NAME and t.type == tokenize.OP and t.string in ('(', '[', '{') and keyword.iskeyword(prev.string):
                need = True
            if prev.type == tokenize.OP and t.type == tokenize.OP and prev.string not in ('(', '[', '{') and t.string not in (')', ']', '}', ',', '(', '[', ':'):
                need = True      # avoid fusing operators ( - - , * * , : = ...)
            if prev.type == tokenize.NAME and keyword.iskeyword(prev.string) and t.type == tokenize.OP and t.string not in (':', ',', ')', ']', '}'):
                need = True
            if t.type == tokenize.NAME and keyword.iskeyword(t.string) and prev.type == tokenize.OP and prev.string not in ('(', '[', '{'):
                need = True
            if prev.type == tokenize.NUMBER and t.type == tokenize.OP and t.string == '.':
                need = True
            if prev.type == tokenize.OP and prev.string == '.' and t.type == tokenize.NUMBER:
                need = False
            if getattr(tokenize, 'FSTRING_START', None) in (prev.type, t.type) or getattr(tokenize, 'FSTRING_MIDDLE', None) in (prev.type, t.type) \
                    or getattr(tokenize, 'FSTRING_END', None) in (prev.type, t.type):
                # inside f-strings spacing is significant: keep the original adjacency
                need = None
            if need is None:
                gap = ''
                if prev.end[0] == t.start[0]:
                    gap = ' ' * (t.start[1] - prev.end[1])
                out.append(gap)
            else:
                if prev.type == tokenize.OP and prev.string in (',',) or (prev.type == tokenize.OP and prev.string in ('=', '==', '+', '-', '*', '/', 'and', 'or') ):
                    sep = ' '
                if t.type == tokenize.OP and t.string in ('=', '==', '+=', ':=', '->', '+', '-', '*', '/', '<', '>', '<=', '>=', '!=', '%', '|', '&', '^') and depth == 0:
                    sep = ' '
                if need:
                    sep = ' '
                extra = vec['space']
                if extra and not (prev.type == tokenize.OP and prev.string == '.') and not (t.type == tokenize.OP and t.string == '.') \
                        and rng.random() < (0.25 if extra == 1 else 0.6):
                    # never between a unary-looking operator and its operand? whitespace there is harmless in Python
                    sep = sep + ' ' * rng.randint(1, 3)
                broke = False
                if depth > 0 and vec['brk'] and prev.type == tokenize.OP and prev.string in (',', '(', '[', '{') \
                        and rng.random() < (0.3 if vec['brk'] == 1 else 1.0):
                    out.append('\n' + base_indent + ' ' * rng.randint(0, 9))
                    broke = True
                elif depth == 0 and vec['cont'] and rng.random() < 0.12 and prev.type != tokenize.STRING and t.type != tokenize.STRING:
                    # (a continuation line may start anywhere, also left of the statement's own indentation)
                    out.append(' \\\n' + ' ' * rng.randint(0, len(base_indent.expandtabs(8)) + 6))
                    broke = True
                if not broke:
                    out.append(sep)
        out.append(s)
        if t.type == tokenize.OP and s in ('(', '[', '{'):
            depth += 1
        elif t.type == tokenize.OP and s in (')', ']', '}'):
            depth -= 1
        prev = t
    return ''.join(out)


def relayout(source, vec, seed=0):
    rng = random.Random(seed)
    unit = '\t' if vec['indent'] == 'tab' else ' ' * int(vec['indent'])
    lines = logical_lines(source)
    out = []
    i = 0
    n = len(lines)
    while i < n:
        level, toks = lines[i]
        ind = unit * level
        text = render_tokens(toks, rng, vec, ind)
        # one-line compound: header + exactly one simple line one level deeper, followed by a shallower/equal line
        if vec['oneline'] and header_only(toks) and i + 1 < n and lines[i + 1][0] == level + 1 and is_simple(lines[i + 1][1]) \
                and (i + 2 >= n or lines[i + 2][0] <= level) and toks[0].string not in ('def', 'class', 'async', '@') \
                and rng.random() < 0.8:
            body = render_tokens(lines[i + 1][1], rng, vec, ind)
            out.append(ind + text + ' ' + body)
            i += 2
        else:
            # join simple statements at the same level
            if vec['join'] and is_simple(toks):
                parts = [text]
                j = i + 1
                while j < n and lines[j][0] == level and is_simple(lines[j][1]) and rng.random() < (0.4 if vec['join'] == 1 else 1.0):
                    parts.append(render_tokens(lines[j][1], rng, vec, ind))
                    j += 1
                out.append(ind + '; '.join(parts) + (';' if len(parts) > 1 and rng.random() < 0.2 else ''))
                i = j
            else:
                out.append(ind + text)
                i += 1
        if vec['blank'] and rng.random() < (0.25 if vec['blank'] == 1 else 0.7):
            k = rng.random()
            nxt = unit * (lines[i][0] if i < n else 0)
            if k < 0.4:
                out.append('')
            elif k < 0.8:
                out.append(nxt + '# layout comment ' + str(rng.randrange(100)))
            else:
                out.append('')
                out.append('# unindented comment')
    return '\n'.join(out) + '\n'
