"""Deterministic line scheduler for the real supp.remote.Environment (C16).

Real Python threads execute the real methods, but only one runs at a time: a
thread runs from one *labelled* source line of supp/remote.py to the next and
then hands the baton back to the controller.  Labels are the ones of
spec/Startup.tla and are attached to source lines by their text (not by line
number), so hooks or unrelated edits do not disturb them; lines that touch the
shared state but match no label get a '?'-label of their own (they are
scheduling points too, and count as model drift).

Process launch and connection are replaced by instrumented fakes (as the
property says): subprocess.Popen, multiprocessing.connection.Client, the `time`
name of the module, threading.Thread / Lock as seen by supp.remote.
"""
import sys
import threading

LABELS = {
    ('prepare', 'with self.prepare_lock:'): ('p1', 'px'),
    ('prepare', 'if self.prepare_thread:'): 'p2',
    ('prepare', "if hasattr(self, 'conn'):"): 'p3',
    ('prepare', 'self.prepare_thread = Thread(target=self._threaded_run)'): 'p4',
    ('prepare', 'self.prepare_thread.start()'): 'p5',
    ('_threaded_run', 'self._run()'): 's2',
    ('_threaded_run', 'self.prepare_thread = None'): 's3',
    ('_run', 'self.proc = Popen(args, env=env)'): 'u2',
    ('_run', 'self.conn = Client(addr)'): 'u3',
    ('_call', 'self.conn'): 'c2',
    ('run', 'with self.prepare_lock:'): ('r1', 'rx'),
    ('run', 'thread = self.prepare_thread'): 'r2',
    ('run', 'thread.join()'): 'r3',
    ('run', "if not hasattr(self, 'conn'):"): 'r4',
    ('_call', 'with self.call_lock:'): ('c4', 'cx'),
    ('_call', 'self.conn.send_bytes(dumps((name, args, kwargs)))'): 'c5',
    ('_call', 'result, is_ok = loads(self.conn.recv_bytes())'): 'c6',
    ('close', 'self.conn'): 'k1',
    ('close', "self.conn.send_bytes(dumps(('close', (), {})))"): 'k2',
    ('close', 'self.conn.close()'): 'k3',
    ('close', 'del self.conn'): 'k4',
}
SHARED_HINTS = ('prepare_thread', 'self.conn', 'prepare_lock', 'call_lock', 'Popen(', 'Client(', 'thread.join(', '.start()')


class Abort(BaseException):
    pass


class World(object):
    """One run: the scheduler, the fakes and the event log."""

    def __init__(self, remote, fail_connects=0):
        self.remote = remote
        self.file = remote.__file__
        if self.file.endswith('.pyc'):
            self.file = self.file[:-1]
        self.src = open(self.file).read().split('\n')
        self.ctrl = threading.Semaphore(0)
        self.go = {}
        self.at = {}           # name -> label / 'done' / ('blocked', what)
        self.pending_begin = {}
        self.first_park = {}   # name -> semaphore to release on the first park (spawned threads)
        self.events = []
        self.servers = []
        self.fail_connects = fail_connects
        self.abort = False
        self.lock = None
        self.starters = []
        self.vclock = 0.0
        self.unknown_labels = set()
        self.errors = []
        self.threads = []

    # -- events -----------------------------------------------------------
    def ev(self, e, t='', k=0, res='', cls='', sid=0, info=''):
        self.events.append({'e': e, 't': t, 'k': k, 'res': res, 'cls': cls, 'sid': sid, 'info': info})

    # -- baton ------------------------------------------------------------
    def me(self):
        return getattr(threading.current_thread(), 'vname', None)

    def park(self, where):
        name = self.me()
        if name is None:
            return
        self.at[name] = where
        fp = self.first_park.pop(name, None)
        if fp is not None:
            fp.release()
        else:
            self.ctrl.release()
        self.go[name].acquire()
        if self.abort:
            raise Abort()
        pb = self.pending_begin.pop(name, None)
        if pb is not None:
            self.ev(pb[0], name, pb[1])

    def finish(self, name):
        self.at[name] = 'done'
        fp = self.first_park.pop(name, None)
        if fp is not None:
            fp.release()
        else:
            self.ctrl.release()

    def enabled(self, name):
        a = self.at.get(name)
        if a is None or a == 'done':
            return False
        if isinstance(a, tuple) and a[0] == 'blocked':
            if a[1] == 'lock':
                return a[2].holder is None
            if a[1] == 'join':
                return a[2].finished
        return True

    def step(self, name):
        """Let `name` run to its next labelled line. False if it cannot run."""
        if not self.enabled(name):
            return False
        self.go[name].release()
        self.ctrl.acquire()
        return True

    # -- tracer -----------------------------------------------------------
    def label(self, frame):
        func = frame.f_code.co_name
        text = self.src[frame.f_lineno - 1].strip()
        lab = LABELS.get((func, text))
        if lab is None:
            if any(h in text for h in SHARED_HINTS) and not text.startswith(('def ', '#', 'from ', 'import ')):
                lab = '?%s:%s' % (func, text)
                self.unknown_labels.add(lab)
            return lab
        if isinstance(lab, tuple):
            # a `with self.<lock>:` line is passed twice: entering (not the holder yet) and leaving
            lk = getattr(frame.f_locals.get('self'), text[len('with self.'):-1], None) if text.startswith('with self.') else self.lock
            return lab[1] if (lk is not None and getattr(lk, 'holder', None) == self.me()) else lab[0]
        return lab

    def tracer(self, frame, event, arg):
        if frame.f_code.co_filename != self.file:
            return None
        if event == 'line':
            lab = self.label(frame)
            if lab is not None:
                self.park(lab)
        return self.tracer

    # -- managed threads --------------------------------------------------
    def spawn(self, name, body, first_park=None):
        self.go[name] = threading.Semaphore(0)
        if first_park is not None:
            self.first_park[name] = first_park
        w = self

        def run():
            threading.current_thread().vname = name
            sys.settrace(w.tracer)
            try:
                body()
            except Abort:
                pass
            except BaseException as e:  # noqa
                w.errors.append((name, type(e).__name__, str(e)))
            finally:
                sys.settrace(None)
                w.finish(name)
        th = threading.Thread(target=run, name='verif-' + name, daemon=True)
        th.vname = name
        self.threads.append(th)
        th.start()
        return th

    def shutdown(self):
        self.abort = True
        for name, a in list(self.at.items()):
            if a != 'done':
                self.go[name].release()
        for th in self.threads:
            th.join(2)


class CoopLock(object):
    def __init__(self, world):
        self.w = world
        self.holder = None
        if world.lock is None:
            world.lock = self        # the first lock the client creates: prepare_lock

    def acquire(self, blocking=True, timeout=-1):
        me = self.w.me()
        while self.holder is not None:
            if not blocking:
                return False
            self.w.park(('blocked', 'lock', self))
        self.holder = me
        return True

    def release(self):
        self.holder = None

    def locked(self):
        return self.holder is not None

    def __enter__(self):
        self.acquire()
        return self

    def __exit__(self, *a):
        self.release()


def make_thread_class(world):
    class CoopThread(object):
        def __init__(self, target=None, args=(), kwargs=None, **kw):
            self.target = target
            self.args = args
            self.kwargs = kwargs or {}
            self.finished = False
            self.started = False
            n = len(world.starters)
            self.vname = 's' if n == 0 or all(s.finished for s in world.starters) else 's#%d' % (n + 1)
            world.starters.append(self)
            self.daemon = True

        def start(self):
            self.started = True
            ready = threading.Semaphore(0)

            def body():
                try:
                    self.target(*self.args, **self.kwargs)
                except Abort:
                    raise
                except BaseException as e:  # the starter dies with its exception, like a real thread
                    world.ev('StarterDied', self.vname, 0, 'exc', type(e).__name__)
                finally:
                    self.finished = True
            world.spawn(self.vname, body, first_park=ready)
            ready.acquire()       # the new thread runs to its first labelled line (or ends)

        def join(self, timeout=None):
            if not self.started:
                raise RuntimeError('cannot join thread before it is started')     # as threading.Thread does
            while not self.finished:
                world.park(('blocked', 'join', self))

        def is_alive(self):
            return self.started and not self.finished

        def __bool__(self):
            return True
    return CoopThread


class FakeTime(object):
    def __init__(self, world):
        self.w = world

    def time(self):
        return self.w.vclock

    def sleep(self, dt):
        self.w.vclock += dt

    def monotonic(self):
        return self.w.vclock


class FakeServer(object):
    def __init__(self, world, addr):
        self.w = world
        self.addr = addr
        self.sid = len(world.servers) + 1
        self.state = 'launched'
        self.queue = []
        world.servers.append(self)
        world.ev('Launch', world.me() or '', 0, '', '', self.sid)

    def exit(self, reason):
        if self.state != 'exited':
            self.state = 'exited'
            self.w.ev('ServerExit', '', 0, reason, '', self.sid)

    # Popen API used by nobody in supp, but harmless
    def poll(self):
        return 0 if self.state == 'exited' else None

    def wait(self, timeout=None):
        return 0

    def kill(self):
        self.exit('killed')
    terminate = kill


class FakeConn(object):
    def __init__(self, world, server):
        self.w = world
        self.server = server
        self.closed = False

    def send_bytes(self, b):
        if self.closed:
            raise OSError('handle is closed')
        msg = self.w.remote.loads(b)
        if self.server.state == 'exited':
            raise BrokenPipeError('server gone')
        if msg[0] == 'close':
            self.w.ev('CloseSent', self.w.me() or '', 0, '', '', self.server.sid)
            self.server.exit('close')
        else:
            self.server.queue.append(msg)

    def recv_bytes(self):
        if self.closed:
            raise OSError('handle is closed')
        if not self.server.queue:
            if self.server.state == 'exited':
                raise EOFError()
            raise RuntimeError('recv without a pending request (would block for ever)')
        msg = self.server.queue.pop(0)
        return self.w.remote.dumps(([msg[0], self.server.sid], True))

    def close(self):
        if not self.closed:
            self.closed = True
            self.w.ev('ConnClosed', self.w.me() or '', 0, '', '', self.server.sid)
            self.server.exit('eof')

    def poll(self, t=0):
        return bool(self.server.queue)


class Patches(object):
    """Install / remove the fakes around one run."""

    def __init__(self, world):
        self.w = world
        self.saved = []

    def __enter__(self):
        import subprocess
        import multiprocessing.connection as mc
        w = self.w
        remote = w.remote

        def fake_popen(args, env=None, **kw):
            return FakeServer(w, args[-1])

        def fake_client(addr, *a, **kw):
            srv = None
            for s in w.servers:
                if s.addr == addr:
                    srv = s
            if w.fail_connects > 0 or srv is None:
                w.fail_connects -= 1
                w.vclock += 6.0          # the 5 s launch timeout has passed
                if srv is not None:
                    w.ev('Connect', w.me() or '', 0, 'fail', '', srv.sid)
                    srv.state = 'orphan'
                    w.ev('ServerExit', '', 0, 'reaped', '', srv.sid)
                raise ConnectionRefusedError('injected connection failure')
            w.ev('Connect', w.me() or '', 0, 'ok', '', srv.sid)
            return FakeConn(w, srv)
        for obj, attr, val in ((subprocess, 'Popen', fake_popen), (mc, 'Client', fake_client),
                               (remote, 'time', FakeTime(w)), (remote, 'Thread', make_thread_class(w)),
                               (remote, 'Lock', lambda: CoopLock(w))):
            self.saved.append((obj, attr, getattr(obj, attr)))
            setattr(obj, attr, val)
        return self

    def __exit__(self, *a):
        for obj, attr, val in reversed(self.saved):
            setattr(obj, attr, val)


def projection(world, env, names):
    lk = world.lock
    pc = {}
    for n in names:
        a = world.at.get(n)
        if a is None:
            pc[n] = 'idle' if n.startswith('s') else 'done'
        elif a == 'done':
            pc[n] = 'idle' if n.startswith('s') else 'done'
        elif isinstance(a, tuple):
            pc[n] = 'blocked-' + a[1]
        else:
            pc[n] = a
    live = sum(1 for s in world.servers if s.state == 'launched')
    cl = getattr(env, 'call_lock', None)
    return {'pc': pc, 'lock': (lk.holder or '') if lk else '', 'clock': (getattr(cl, 'holder', None) or '') if cl is not None else '',
            'pt': getattr(env, 'prepare_thread', None) is not None,
            'conn': hasattr(env, 'conn'), 'live': live}


def run_schedule(remote, ops, schedule, fail_connects=0, expect=None, max_drain=4000):
    """ops: {thread name: [op names]}; schedule: list of process names ('t1', 's', ...).
    expect: optional list (same length as schedule) of model projections to compare with.
    Returns dict(events=..., drift=..., deadlock=..., results=...)."""
    w = World(remote, fail_connects)
    drift = []
    with Patches(w):
        env = remote.Environment(executable='/fake/python')
        results = {}

        def mk(name, oplist):
            def body():
                for k, op in enumerate(oplist, 1):
                    kind = {'prepare': 'Prep', 'call': 'Call', 'close': 'Close'}[op]
                    w.pending_begin[name] = (kind + 'Begin', k)
                    try:
                        if op == 'prepare':
                            r = env.prepare()
                        elif op == 'call':
                            r = env._call('ping-%s-%d' % (name, k))
                        else:
                            r = env.close()
                    except Abort:
                        raise
                    except BaseException as e:  # noqa
                        pb = w.pending_begin.pop(name, None)
                        if pb:
                            w.ev(pb[0], name, pb[1])
                        w.ev(kind + 'End', name, k, 'exc', type(e).__name__, 0, str(e)[:200])
                        results[(name, k)] = ('exc', type(e).__name__, str(e))
                    else:
                        pb = w.pending_begin.pop(name, None)
                        if pb:
                            w.ev(pb[0], name, pb[1])
                        paired = ''
                        if op == 'call':
                            paired = 'paired' if (isinstance(r, list) and r and r[0] == 'ping-%s-%d' % (name, k)) else 'mispaired'
                        w.ev(kind + 'End', name, k, 'ok', '', (r[1] if op == 'call' and isinstance(r, list) and len(r) > 1 else 0), paired)
                        results[(name, k)] = ('ok', r)
            return body
        names = sorted(ops)
        for n in names:
            w.spawn(n, mk(n, ops[n]))
            w.ctrl.acquire()     # runs to its first labelled line
        allnames = names + ['s']
        steps_done = 0
        for i, who in enumerate(schedule):
            ok = w.step(who)
            if not ok:
                drift.append((i, who, 'not enabled in the implementation', dict(w.at)))
                continue
            steps_done += 1
            if expect is not None and expect[i] is not None:
                got = projection(w, env, allnames)
                exp = expect[i]
                bad = [k for k in exp if exp[k] != got.get(k)]
                if bad:
                    drift.append((i, who, 'projection differs', {k: (exp[k], got.get(k)) for k in bad}))
        # drain: round robin over every process, deterministic order
        deadlock = False
        for _ in range(max_drain):
            live = [n for n in list(w.at) if w.at[n] != 'done']
            if not live:
                break
            progressed = False
            for n in sorted(live):
                if w.step(n):
                    progressed = True
            if not progressed:
                deadlock = True
                break
        else:
            deadlock = True
        final = projection(w, env, allnames)
        w.shutdown()
    return {'events': w.events, 'drift': drift, 'deadlock': deadlock, 'results': results,
            'final': final, 'unknown_labels': sorted(w.unknown_labels), 'errors': w.errors,
            'steps': steps_done}
