"""Worker for C08: real lint / assist / location calls on texts (real files, typing-state mutations of them, generated
programs, rendered definition graphs with cycles), each under a wall-clock limit.
stdin: {"texts": [{id, source, filename, cursors: n | [[l, c]...], seed, root?}], "graphs": [[id, graph, split]], "base": dir}
stdout: list of cases for ApiCheck.tla"""
import json
import os
import random
import re
import shutil
import signal
import sys

LINESEP = re.compile(r'\r\n|\r|\n')
MARK = '__supp_mark__'
LIMIT = 20


class Timeout(BaseException):
    pass


def alarm(signum, frame):
    raise Timeout()


def tok_lines(text):
    return LINESEP.split(text)


def parses(text, filename='<v>'):
    try:
        compile(text, filename, 'exec', flags=0x400, dont_inherit=True)     # PyCF_ONLY_AST
        return True, None
    except SyntaxError as e:
        return False, e
    except (ValueError, RecursionError, MemoryError) as e:    # null bytes, nesting too deep
        return None, e


def marked_text(text, pos):
    """the text with the cursor mark inserted at (line, col), lines as the tokenizer splits them"""
    lines = tok_lines(text)
    ln, col = pos
    if ln > len(lines):
        lines.append('')
    line = lines[ln - 1]
    lines[ln - 1] = line[:col] + MARK + line[col:]
    return '\n'.join(lines)


def serialisable(x):
    from supp.umsgpack import dumps
    try:
        dumps(x)
        return True
    except Exception:
        return False


def well_lint(r):
    return isinstance(r, list) and all(isinstance(d, tuple) and len(d) >= 4 and isinstance(d[0], str) and isinstance(d[1], str) for d in r) \
        and serialisable([d[:4] for d in r])


def well_assist(r):
    return isinstance(r, tuple) and len(r) == 2 and isinstance(r[0], str) and isinstance(r[1], list) and all(isinstance(x, str) for x in r[1]) \
        and serialisable(r)


def well_location(r):
    def leaf(d):
        return isinstance(d, dict) and 'loc' in d and 'file' in d and isinstance(d['loc'], tuple) and len(d['loc']) == 2 \
            and all(isinstance(x, int) and x >= 0 for x in d['loc'])
    return isinstance(r, list) and all(leaf(e) or (isinstance(e, list) and all(leaf(x) for x in e)) for e in r) and serialisable(r)


def guarded(f):
    signal.alarm(LIMIT)
    try:
        return 'ok', f()
    except Timeout:
        return 'timeout', None
    except SyntaxError:
        return 'SyntaxError', None
    except BaseException as e:  # noqa
        return type(e).__name__, str(e)[:200]
    finally:
        signal.alarm(0)


def calls_for(project, text, filename, cursors):
    from supp import assistant, linter
    ok, err = parses(text, filename)
    if ok is None:
        return None
    case = {'parses': bool(ok), 'e01': {'msg': err.msg if err else '', 'line': (err.lineno or 0) if err else 0, 'col': (err.offset or 0) if err else 0},
            'calls': []}
    out, r = guarded(lambda: linter.lint(project, text, filename) if filename != '<none>' else linter.lint(project, text))
    e01 = [d for d in r if d[0] == 'E01'] if out == 'ok' and isinstance(r, list) else []
    same = bool(e01) and err is not None and (e01[0][1], e01[0][2], e01[0][3]) == (err.msg, err.lineno, err.offset)
    case['calls'].append({'op': 'lint', 'marked': True, 'outcome': out, 'wellformed': bool(out == 'ok' and well_lint(r)), 'ne01': len(e01), 'e01same': same,
                          'pos': [0, 0], 'detail': r if out not in ('ok',) else ''})
    for pos in cursors:
        mt = marked_text(text, pos)
        mok, _ = parses(mt, filename)
        if mok is None:
            continue
        for op, fn, wf in (('assist', assistant.assist, well_assist), ('location', assistant.location, well_location)):
            out, r = guarded(lambda: fn(project, text, tuple(pos), filename) if filename != '<none>' else fn(project, text, tuple(pos)))
            case['calls'].append({'op': op, 'marked': bool(mok), 'outcome': out, 'wellformed': bool(out == 'ok' and wf(r)), 'ne01': 0, 'e01same': False,
                                  'pos': list(pos), 'detail': r if out not in ('ok', 'SyntaxError') else ''})
    return case


# ---------------------------------------------------------------------------
# mutations

def mutate(text, muts, rng):
    lines = tok_lines(text)
    cursor = None
    for m in muts:
        if not lines:
            lines = ['']
        ln = rng.randrange(len(lines))
        if m == 'TruncateLineAtCursor':
            col = rng.randint(0, len(lines[ln]))
            lines[ln] = lines[ln][:col]
            cursor = (ln + 1, col)
        elif m == 'TrailingDot':
            cand = [i for i, l in enumerate(lines) if re.search(r'\w$', l)]
            if cand:
                ln = rng.choice(cand)
            lines[ln] = lines[ln] + '.'
            cursor = (ln + 1, len(lines[ln]))
        elif m == 'DeleteLine':
            del lines[ln]
        elif m == 'TruncateFile':
            lines = lines[:ln + 1]
            col = rng.randint(0, len(lines[ln]))
            lines[ln] = lines[ln][:col]
            cursor = (ln + 1, col)
        elif m == 'MoveReturnOutside':
            kw = rng.choice(['return 1', 'yield 2', 'break', 'continue', 'return'])
            lines.insert(ln, kw)
        elif m == 'HalfTypedImport':
            stmt = rng.choice(['import ', 'import os.', 'from ', 'from os import ', 'from . import ', 'from .. import x', 'from nosuchmod9 import ',
                               'import nosuchmod9.', 'from os.pa', 'from .', 'import sys, '])
            lines.insert(ln, stmt)
            cursor = (ln + 1, len(stmt))
        elif m == 'UnclosedBracket':
            lines[ln] = lines[ln] + rng.choice(['(', '[', '{', 'f(', '"', "'''"])
            cursor = (ln + 1, len(lines[ln]))
    return '\n'.join(lines), cursor


SNIPPETS = [
    'import sys\nlen\nsys\nsys.path\nprint(len, sys)\n',
    # dotted imports: the head name is a wrapper object, not a module with a file
    'import os.path\nimport json.decoder, xml.dom.minidom as md\nos\nos.path\njson\njson.decoder\nmd\nxml\nfrom os import path as p2\np2\n',
    'class A:\n    def m(self):\n        for self.x in []:\n            pass\n        with open("f") as self.f:\n            pass\n        return [0 for self.y in []]\n',
    'return 1\nclass K:\n    return 2\nyield 3\n',
    # subscript, starred and nested targets of for / with / comprehensions
    'd = {}\nfor d[0] in []:\n    pass\nwith open("f") as d["k"], open("g") as (d[1], (d[2], *rest)):\n    pass\n[0 for d[3] in []]\nfor (a, d[4]), *b in []:\n    pass\nd\nrest\n',
    'from nosuchmod9 import thing\nimport nosuchmod9\nthing\nnosuchmod9.attr\n',
    'from . import sibling\nfrom .. import up\nsibling\n',
    'x = 1\n\x0c\ndef foo():\n    pass\nfoo\n',
    'a = b\nb = a\na\nb\n',
    'def f():\n    return f()\nf().x\n',
    'class A(A):\n    pass\nA().x\nA.y\n',
    'import os\nos.path.join\n"".join\n(1).real\n[].append\nos.nosuch.attr\n',
    'def g(a, /, b, *, c=d, **kw):\n    return a\nlambda *, k=d: k\nclass M(metaclass=meta):\n    pass\n',
    'x: int\nx\nglobal y\ny = 1\ndel x\nx += 1\n',
    '@dec\nasync def co(a):\n    async with a as b:\n        async for c in b:\n            await c\n    return [d async for d in a]\n',
    'try:\n    pass\nexcept* ValueError as e:\n    e\nmatch x:\n    case [a, b]:\n        a\n',
    '',
    '\n\n',
    'x = (\n',
    'é = 1\né\n"é".upper\n',
    # PEP 695 type parameters, bounds and defaults
    'def f[T: int, *Ts, **P](x: T) -> T:\n    return x\nclass C[T: (int, str)]:\n    attr: T\ntype Alias[K] = dict[K, int]\nf\nC.attr\n',
    # class bases that do not evaluate to a class
    'if x:\n    B = int\nelse:\n    B = str\nclass A(B): pass\nA.real\nA().real\n',
    'class A:\n    def __init__(self):\n        self.b = A\nclass B(A().b): pass\nB.b\nB().b\n',
    'import os.path\nclass A(os): pass\nA.path\nA().path\nclass M: pass\nclass N(M()): pass\nN().x\nN.x\nclass L(len, 1, "s", None): pass\nL.x\nL().x\n',
    # deep expression / statement nesting (the parser accepts it)
    'x = ' + ' + '.join(['1'] * 400) + '\nx\n',
    'if a:\n    pass\n' + ''.join('elif a:\n    pass\n' for _ in range(250)) + 'a\n',
    'x = ' + '[' * 60 + '1' + ']' * 60 + '\ny = ' + 'f(' * 80 + '0' + ')' * 80 + '\nx\ny\n',
    # many consecutive regions in one scope (names are resolved region by region)
    'c = 0\n' + ''.join('if c:\n    v%d = %d\n' % (i, i) for i in range(40)) + 'v39\nc\n',
    # a starred element of a target that is itself a list / tuple display
    '*[a, b], c = x\n*(d, e), f = 1, 2, 3\nfor *[g, h], i in x:\n    pass\nwith x as (*[j, k], l):\n    pass\n[1 for *[m, n], o in x]\na\nc\ne\nh\nk\n',
    # a walrus after a comprehension inside expressions analysed beside the main flow of a class body
    'class a:\n    try:\n        pass\n    except [x for x in y] or (g := e):\n        pass\na.g\na().g\n',
    'class A:\n    z = [1 for a in f([x for x in y], g := 1)]\nA.g\nclass B:\n    class C(f([x for x in y]), (h := 1)): pass\n    if c: pass\nB.h\nB().C\n',
    'class A:\n    try:\n        import json\n    except ImportError if all(x for x in y) else (err := OSError):\n        json = None\nA().json\nA.err\n',
    # a function as a base class whose result is not an instance
    "if c: x = 1\nelse: x = 's'\ndef f(): return x\nclass A(f): pass\nA().real\nA.real\n",
    'import os.path\ndef f(): return os\nclass A(f): pass\nA().path\nclass K:\n    def __init__(self):\n        self.v = 1\n        self.v = ""\n    def g(self): return self.v\nclass D(K().g): pass\nD().x\n',
    # non-ASCII text before names on the same line (ast columns count bytes, the cursor counts characters)
    '\u00e9\u00e9\u00e9\u00e9\u00e9;a=1;a\n\u8a9e\u8a9e\u8a9e;b=1;b\ns = "\u00e9\u00e9\u00e9\u00e9\u00e9\u00e9\u00e9\u00e9"; c = 1; c\n',
    # long flat chains of definitions (no nesting anywhere)
    "s = ''\n" + "s = s.strip()\n" * 300 + "s.x\n",
    'a0 = 1\n' + ''.join('a%d = a%d\n' % (i + 1, i) for i in range(400)) + 'a400.real\n',
    'def f0(): return 1\n' + ''.join('def f%d(): return f%d()\n' % (i + 1, i) for i in range(400)) + 'f400().real\n',
    'class C0: pass\n' + ''.join('class C%d(C%d): pass\n' % (i + 1, i) for i in range(700)) + 'C700().x\n',
    'x0 = 1\n' + ''.join('def f%d(): return x%d\nx%d = f%d()\n' % (i, i, i + 1, i) for i in range(250)) + 'x250.real\n',
    'x = [a ' + 'for a in b ' * 200 + ']\nx.y\n',
    '\n'.join(sum([['    ' * i + 'def f%d():' % i] + ['    ' * (i + 1) + 'if a: x%d = 1' % j for j in range(16)] for i in range(5)], []) + ['    ' * 5 + 'x0.real']) + '\n',
]
LONG_CHAIN = 'c = 0\n' + ''.join('if c:\n    v%d = %d\n' % (i % 7, i) for i in range(400)) + 'v3\nc\n'


def render_graph(g, split):
    """definition graph -> {file: text}; node i is the name n<i>"""
    n = len(g['kind'])
    mods = {}

    def mod(i):
        return 'gm%d' % i if split else 'gm0'
    for i in range(1, n + 1):
        j = g['succ'][i - 1]
        k = g['kind'][i - 1]
        lines = mods.setdefault(mod(i), [])
        imp = []
        if split and k != 'const' and mod(j) != mod(i):
            imp = ['from %s import n%d' % (mod(j), j)]
        if k == 'const':
            lines += ['n%d = "text"' % i]
        elif k == 'assign':
            lines += imp + ['n%d = n%d' % (i, j)]
        elif k == 'import':
            lines += ['from %s import n%d as n%d' % (mod(j), j, i)] if (split or True) else []
        elif k == 'call':
            lines += imp + ['def f%d():' % i, '    return n%d' % j, 'n%d = f%d()' % (i, i)]
        elif k == 'class':
            lines += imp + ['class n%d(n%d):' % (i, j), '    attr%d = 1' % i]
        elif k == 'star':
            lines += (['from %s import *' % mod(j)] if split and mod(j) != mod(i) else []) + ['n%d = n%d' % (i, j)]
    files = {m + '.py': '\n'.join(ls) + '\n' for m, ls in mods.items()}
    files['main.py'] = 'from %s import n1\nn1\nn1.upper\nn1().attr1\nn1.attr2.more\nclass Sub(n1):\n    pass\nSub().attr1\n' % mod(1)
    return files


def main():
    from supp.project import Project
    signal.signal(signal.SIGALRM, alarm)
    data = json.load(sys.stdin)
    out = []
    for t in data.get('texts', []):
        rng = random.Random(t.get('seed', 0))
        text = t['source']
        muts = t.get('muts') or []
        cursor = None
        if muts:
            text, cursor = mutate(text, muts, rng)
        lines = tok_lines(text)
        cursors = t.get('cursors', 4)
        if isinstance(cursors, int):
            pts = []
            if cursor and 1 <= cursor[0] <= len(lines) and cursor[1] <= len(lines[cursor[0] - 1]):
                pts.append(cursor)          # (a later mutation may have moved the text under an earlier cursor)
            if cursors == -1:
                pts = [(i + 1, c) for i, l in enumerate(lines) for c in range(len(l) + 1)]
                if len(pts) > 400:
                    # long texts: the first and last positions and a sample in between
                    pts = pts[:40] + rng.sample(pts[40:-80], 60) + pts[-80:]
            else:
                for _ in range(cursors):
                    ln = rng.randrange(len(lines))
                    # bias towards the end of identifiers and after dots
                    ends = [m.end() for m in re.finditer(r'\w+|\.', lines[ln])]
                    col = rng.choice(ends) if ends and rng.random() < 0.7 else rng.randint(0, len(lines[ln]))
                    pts.append((ln + 1, col))
            cursors = pts
        project = Project([t.get('root') or os.path.dirname(t['filename'])])
        try:
            text.encode('utf-8')
        except UnicodeEncodeError:
            continue
        c = calls_for(project, text, t['filename'], cursors)
        if c is None:
            continue
        c.update({'id': t['id'], 'filename': t['filename'], 'muts': muts, 'text': text if len(text) < 4000 or muts else ''})
        out.append(c)
    for gid, g, split in data.get('graphs', []):
        root = os.path.join(data['base'], 'G%d' % gid)
        shutil.rmtree(root, ignore_errors=True)
        os.makedirs(root)
        files = render_graph(g, split)
        for f, txt in files.items():
            open(os.path.join(root, f), 'w').write(txt)
        project = Project([root])
        calls = []
        parse_ok = True
        for f in sorted(files):
            txt = files[f]
            lines = tok_lines(txt)
            cursors = [(i + 1, len(l)) for i, l in enumerate(lines) if l and not l.startswith(' ')] + \
                      [(i + 1, max(0, len(l) - 1)) for i, l in enumerate(lines) if l.startswith(('n1', 'Sub'))]
            c = calls_for(project, txt, os.path.join(root, f), cursors)
            if c is None:
                continue
            parse_ok = parse_ok and c['parses']
            for k in c['calls']:
                k['file'] = f
            calls += c['calls']
        out.append({'id': gid, 'parses': True, 'e01': {'msg': '', 'line': 0, 'col': 0}, 'calls': [k for k in calls if not (k['op'] == 'lint' and False)],
                    'graph': g, 'split': split, 'files': files, 'allparse': parse_ok})
        shutil.rmtree(root, ignore_errors=True)
    json.dump(out, sys.stdout, default=str)


if __name__ == '__main__':
    main()
