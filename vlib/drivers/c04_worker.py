"""Worker for C04: replay query orders on ONE analysis object of the real supp and compare with fresh analyses.
stdin: {"jobs": [{id, source, filename, sites: [[line, col, name], ...], orders: [[site index (1-based), ...], ...]}]}
stdout: [{id, fresh: [answer per site], hists: [[ [site, answer], ... ] per order], api: {...}}]"""
import json
import sys


def answer(node_by_pos, pos, nm):
    from supp.name import MultiName, UndefinedName, RuntimeName
    n = node_by_pos.get((pos[0], pos[1]))
    fl = getattr(n, 'flow', None)
    if fl is None:
        return 'E42'
    try:
        names = fl.names_at((pos[0], pos[1]))
    except RecursionError:
        return 'RecursionError'       # an answer like any other: it must not depend on the history either
    vis = sorted(k for k in names if not k.startswith('__') and len(k) <= 3)
    sn = names.get(nm)
    if sn is None:
        alts, undef = None, False
    else:
        al = sn.alt_names if isinstance(sn, MultiName) else [sn]
        undef = any(type(a) is UndefinedName for a in al)
        alts = sorted(str(getattr(a, 'declared_at', None) or ('rt' if isinstance(a, RuntimeName) else a.location)) for a in al if type(a) is not UndefinedName)
    return json.dumps([vis, alts, undef])


def analysis(source, filename):
    from supp.project import Project
    from supp.nast import extract_scope
    from supp.util import Source, get_name_usages, np
    src = Source(source, filename)
    scope = extract_scope(src, Project(['/nonexistent-verif-root']))
    return scope, {np(n): n for n in get_name_usages(src.tree)}


def main():
    from supp.project import Project
    from supp import linter, assistant
    data = json.load(sys.stdin)
    out = []
    for job in data['jobs']:
        src, fn, sites = job['source'], job['filename'], job['sites']
        fresh = []
        gnames = set()
        for ln, col, nm in sites:
            top, nodes = analysis(src, fn)
            gnames = set(getattr(top, '_global_names', {}))    # module variables created under `global`: kept beside the region tables
            fresh.append(answer(nodes, (ln, col), nm))
        hists = []
        for order in job['orders']:
            _, nodes = analysis(src, fn)
            h = []
            for i in order:
                ln, col, nm = sites[i - 1]
                h.append([i, answer(nodes, (ln, col), nm)])
            hists.append(h)
        # the whole-file lint as one of the histories: its E02 verdict per site must agree with the fresh visibility
        project = Project(['/nonexistent-verif-root'])
        try:
            diags = linter.lint(project, src, fn)
        except Exception:  # totality of lint is C08's business
            diags = None
        e02 = {(d[2], d[3]) for d in diags or [] if d[0] == 'E02'}
        lint_hist = []
        for i, (ln, col, nm) in enumerate(sites if diags is not None else [], 1):
            f = json.loads(fresh[i - 1]) if fresh[i - 1] not in ('E42', 'RecursionError') else None
            vis_fresh = f is not None and (f[1] is not None or nm in gnames)
            # answer in the same vocabulary: visible <=> no E02
            lint_hist.append([i, 'visible' if (ln, col) not in e02 else 'undefined', 'visible' if vis_fresh else 'undefined'])
        # API-level sequences on one project: lint -> assist, assist -> lint, repeated identical requests
        api = []
        if sites:
            ln, col, nm = sites[len(sites) // 2]
            pos = (ln, col + len(nm))
            p1 = Project(['/nonexistent-verif-root'])
            try:
                a0 = json.dumps(assistant.assist(Project(['/nonexistent-verif-root']), src, pos, fn))
                l0 = json.dumps([d[:4] for d in linter.lint(Project(['/nonexistent-verif-root']), src, fn)])
                seq = []
                seq.append(['lint', json.dumps([d[:4] for d in linter.lint(p1, src, fn)]), l0])
                seq.append(['assist', json.dumps(assistant.assist(p1, src, pos, fn)), a0])
                seq.append(['assist', json.dumps(assistant.assist(p1, src, pos, fn)), a0])
                seq.append(['lint', json.dumps([d[:4] for d in linter.lint(p1, src, fn)]), l0])
                api = seq
            except Exception:
                api = []
        out.append({'id': job['id'], 'fresh': fresh, 'hists': hists, 'lint': lint_hist, 'api': api})
    json.dump(out, sys.stdout)


if __name__ == '__main__':
    main()
