"""Worker for C09: replay disk-operation / request histories on the real file system
against one long-lived supp Project and a fresh Project per request.
stdin: {"jobs": [{id, lk:[k1,k2], disk0:[v,v,v], ops:[["create",m]|["rewrite",m]|["touch",m]|["request"]],
                  layout: "flat"|"pkg", expect?: [...]}], "root": dir}
stdout: JSON list of {id, events, drift}"""
import hashlib
import json
import os
import re
import shutil
import sys

NAMES = {1: 'mb', 2: 'mc', 3: 'md'}


def modname(m, layout):
    if layout == 'pkg' and m >= 2:
        return 'pk.' + NAMES[m]
    return NAMES[m]


def relpath(m, layout):
    return modname(m, layout).replace('.', '/') + '.py'


def content(m, ver, lk, layout, back=False, pad=False):
    text = _content(m, ver, lk, layout, back)
    if pad:
        # every version of every module has the same size on disk: a rewrite changes content and mtime only
        text += '#' + 'x' * (700 - len(text) - 2) + '\n'
    return text


def _content(m, ver, lk, layout, back=False):
    """module m at version ver; back: the last module star-imports the first one (an import cycle)"""
    n = NAMES[m]
    lines = ['# %s version %d' % (n, ver)]
    if back == 1 and m == 3:
        lines.append('from mb import *')
    if m < 3:
        nxt = NAMES[m + 1]
        nxtmod = modname(m + 1, layout)
        kind = lk[m - 1]
        if kind == 'star':
            lines.append('from %s import *' % nxtmod)
        elif kind == 'import':
            # `import pk.mc as mc` keeps the attribute name short in the package layout
            lines.append('import %s as %s' % (nxtmod, nxt) if '.' in nxtmod else 'import %s' % nxtmod)
        elif kind == 'frompkg':
            # the submodule as an attribute of its package (package layout only): from pk import mc
            lines.append('from pk import %s' % nxt)
        else:
            names = [nxt + '_tag']
            if m == 1:
                # names of module 3 that travel through module 2
                names.append('md' if lk[1] in ('import', 'frompkg') else 'md_tag')
            lines.append('from %s import %s' % (nxtmod, ', '.join(names)))
    if back == 2 and m == 2:
        lines.append('from mb import *')      # after the module's own import: the later star import shadows the earlier one
    lines += [''] * ver          # the definitions move with the version
    lines.append('%s_v%d = %d' % (n, ver, ver))
    lines.append('class %s_tag(object):' % n)
    lines.append('    %s_a%d = %d' % (n, ver, ver))
    lines.append('    def %s_method(self):' % n)
    lines.append('        self.%s_i%d = 1' % (n, ver))
    lines.append('')
    return '\n'.join(lines)


def deep_expr(lk, depth):
    """expression in main reaching the tag class of module depth+1 through mb"""
    e = 'mb'
    if depth >= 1:
        if lk[0] in ('import', 'frompkg'):
            e += '.mc'
        if depth == 1:
            return e + '.mc_tag'
        if lk[1] in ('import', 'frompkg'):
            e += '.md'
        return e + '.md_tag'
    return e


MARK = re.compile(r'^(m[bcd])_[vai](\d+)$')
IDX = {'mb': 1, 'mc': 2, 'md': 3}


def markers(names):
    out = set()
    for n in names:
        m = MARK.match(n)
        if m:
            out.add((IDX[m.group(1)], int(m.group(2))))
    return out


def batch(project, root, lk, rel=False, layout='flat', entries=False):
    """the request batch through main; returns (canonical reply, markers)"""
    from supp import assistant, linter
    mainfile = os.path.join(root, 'main.py')
    reply = []
    mk = set()

    def call(f, *a):
        # `project` is a Project (the long-lived one) or a factory (a newly created project for EVERY request)
        pr = project() if callable(project) else project
        with pr.check_changes():
            try:
                return ['ok', f(pr, *a)]
            except Exception as e:  # noqa
                return ['exc', type(e).__name__, str(e)]
    if entries == 2:
        # the long-lived project meets the cycle at the middle module first (a newly created one always where the request enters)
        mod = 'pk.mc' if layout == 'pkg' else 'mc'
        src = 'import %s as zz\nzz.' % mod
        reply.append(['names-first-mc', call(assistant.assist, src, (2, 3), mainfile)])
    # names of mb
    src = 'import mb\nmb.'
    r = call(assistant.assist, src, (2, 3), mainfile)
    reply.append(['names', r])
    if r[0] == 'ok':
        mk |= markers(r[1][1])
    for depth in (1, 2):
        e = deep_expr(lk, depth)
        src = 'import mb\n%s.' % e
        r = call(assistant.assist, src, (2, len(e) + 1), mainfile)
        reply.append(['deep%d' % depth, r])
        if r[0] == 'ok':
            mk |= {p for p in markers(r[1][1]) if p[0] == depth + 1}
        src = 'import mb\n%s\n' % e
        r = call(assistant.location, src, (2, len(e) - 1), mainfile)
        reply.append(['loc%d' % depth, r])
    # requests that enter the project through the other modules (a different entry point into an import cycle)
    for m in (('md', 'mc') if entries else ()):
        mod = ('pk.' + m) if layout == 'pkg' else m
        src = 'import %s as zz\nzz.' % mod
        r = call(assistant.assist, src, (2, 3), mainfile)
        reply.append(['names-' + m, r])
    src = 'from mb import *\nprint(mb_tag, mc_tag, md_tag)\n'
    r = call(lambda p, s, f: [x[:4] for x in linter.lint(p, s, f)], src, mainfile)
    reply.append(['lint', r])
    return reply, mk


def norm_alternatives(x):
    """the order of alternative definitions inside a location() entry is C17's business: compare as sets"""
    if isinstance(x, (list, tuple)):
        y = [norm_alternatives(e) for e in x]
        if y and all(isinstance(e, dict) and 'loc' in e for e in y):
            y = sorted(y, key=lambda e: json.dumps(e, sort_keys=True, default=str))
        return y
    if isinstance(x, dict):
        return {k: norm_alternatives(v) for k, v in x.items()}
    return x


def canon(x, root):
    s = json.dumps(norm_alternatives(x), sort_keys=True, default=str)
    return s.replace(root, '<root>')


def cache_projection(project, layout):
    out = {}
    for m in (1, 2, 3):
        mod = project._module_cache.get(modname(m, layout))
        if mod is None or not hasattr(mod, 'filename'):
            continue
        ver = None
        sc = mod.__dict__.get('_scope') or mod.__dict__.get('scope')     # the cached analysis, if any
        if sc is not None:
            for n in sc.flow._names:
                mm = re.match(r'^m[bcd]_v(\d+)$', n.name)
                if mm:
                    ver = int(mm.group(1))
        out[m] = ver
    return out


def run_job(job, root):
    from supp.project import Project
    lk, layout = job['lk'], job.get('layout', 'flat')
    shutil.rmtree(root, ignore_errors=True)
    os.makedirs(os.path.join(root, 'pk'))
    open(os.path.join(root, 'pk', '__init__.py'), 'w').close()
    clock = [1500000000]
    disk = {}

    def write(m, ver):
        p = os.path.join(root, relpath(m, layout))
        with open(p, 'w') as fd:
            fd.write(content(m, ver, lk, layout, job.get('back', False), job.get('pad', False)))
        touch(m)
        disk[m] = ver

    def touch(m):
        clock[0] += 7
        os.utime(os.path.join(root, relpath(m, layout)), (clock[0], clock[0]))
    for m in (1, 2, 3):
        if job['disk0'][m - 1]:
            write(m, job['disk0'][m - 1])
    long_project = Project([root])
    events = []
    drift = []
    expect = job.get('expect')
    for i, op in enumerate(job['ops']):
        if op[0] == 'create':
            write(op[1], 1)
            events.append({'op': 'create', 'm': op[1], 'ver': 1})
        elif op[0] == 'rewrite':
            write(op[1], disk[op[1]] + 1)
            events.append({'op': 'rewrite', 'm': op[1], 'ver': disk[op[1]]})
        elif op[0] == 'touch':
            touch(op[1])
            events.append({'op': 'touch', 'm': op[1], 'ver': disk[op[1]]})
        else:
            lrep, lmk = batch(long_project, root, lk, layout=layout, entries=job.get('back', False))
            frep, fmk = batch(lambda: Project([root]), root, lk, layout=layout, entries=job.get('back', False))
            lc, fc = canon(lrep, root), canon(frep, root)
            ev = {'op': 'request', 'long': hashlib.sha1(lc.encode()).hexdigest(), 'fresh': hashlib.sha1(fc.encode()).hexdigest(),
                  'lm': sorted(map(list, lmk)), 'fm': sorted(map(list, fmk))}
            if lc != fc:
                ev['diff'] = [[a[0], a[1], b[1]] for a, b in zip(lrep, frep) if a != b][:3]
            events.append(ev)
            if expect is not None and expect[i] is not None:
                exp = expect[i]
                if sorted(map(list, exp['markers'])) != ev['lm']:
                    drift.append([i, 'markers', exp['markers'], ev['lm']])
                proj = cache_projection(long_project, layout)
                if {int(k): v for k, v in exp['cache'].items()} != proj:
                    drift.append([i, 'cache', exp['cache'], proj])
    return {'id': job['id'], 'events': events, 'drift': drift[:4], 'ndrift': len(drift)}


def main():
    data = json.load(sys.stdin)
    root = data['root']
    out = []
    for job in data['jobs']:
        out.append(run_job(job, root))
    shutil.rmtree(root, ignore_errors=True)
    json.dump(out, sys.stdout, default=str)


if __name__ == '__main__':
    main()
