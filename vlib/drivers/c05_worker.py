"""Worker for C05: renders scope chains (from Scoping.tla) / reads real files, asks CPython's symtable for the owner
scope of every read and the real supp for the alternatives it resolves the read to.
stdin: {"chains": [[id, chain, owners]], "files": [[id, path]]}; stdout: list of cases for ScopingCheck.tla"""
import ast
import json
import symtable
import sys

SCOPE_NODES = (ast.FunctionDef, ast.AsyncFunctionDef, ast.ClassDef, ast.Lambda, ast.ListComp, ast.SetComp, ast.DictComp, ast.GeneratorExp)
COMPS = (ast.ListComp, ast.SetComp, ast.DictComp, ast.GeneratorExp)


PARAM_FORMS = ['x', 'x=0', '*x', '**x', '*, x=0', 'x, /', '_p, *, x', '_p=0, *x']
BIND_FORMS = ['x = %d', 'for x in (%d,): pass', 'with _use(%d) as x: pass', 'import os as x  # %d', '(x := %d)', 'x: int = %d', '(x, _q) = (%d, 0)',
              'try: pass\nexcept Exception as x: pass  # %d', 'from os import path as x  # %d', '[x, *_q] = (%d,)',
              # captures of a match statement: bare, with `as`, starred, the rest of a mapping, inside a class pattern
              'match %d:\n    case x: pass', 'match %d:\n    case int() as x: pass', 'match (%d,):\n    case [_q, *x]: pass',
              'match {"k": %d}:\n    case {"k": _q, **x}: pass', 'match %d:\n    case int(real=x) | complex(real=x): pass']


def render(chain, variant=0):
    """variant 0: the canonical forms (assignment, positional lambda parameter); otherwise the binding form of every scope is
    drawn from PARAM_FORMS / BIND_FORMS (binding forms that do not open a scope of their own)"""
    import random
    kinds, roles = chain['kind'], chain['role']
    d = len(kinds)
    rng = random.Random(variant * 1000003 + len(json.dumps(chain, sort_keys=True)) * 7 + sum(map(ord, json.dumps(chain, sort_keys=True))))

    def flags(r):
        return {'g': r.startswith('global'), 'n': r.startswith('nonlocal'), 'b': 'bind' in r, 'r': 'read' in r}

    def expr(i):
        """expression for the expression scopes i..d"""
        if i > d:
            return None
        f = flags(roles[i - 1])
        parts = []
        if f['r']:
            parts.append('_use(x)')
        inner = expr(i + 1)
        if inner:
            parts.append(inner)
        body = '(' + ', '.join(parts) + (',)' if len(parts) == 1 else ')') if parts else '0'
        if kinds[i - 1] == 'lambda':
            return '(lambda %s: %s)' % ((rng.choice(PARAM_FORMS) if variant else 'x') if f['b'] else '', body)
        return '[%s for %s in (0,)]' % (body, 'x' if f['b'] else '_t%d' % i)

    lines = []
    mf = flags(chain['mrole'])
    if mf['b']:
        lines.append((rng.choice(BIND_FORMS) if variant else 'x = %d') % 0)
    if mf['r']:
        lines.append('_use(x)')

    def stmts(i, ind):
        pad = '    ' * ind
        if i > d:
            return
        k = kinds[i - 1]
        if k in ('lambda', 'comp'):
            lines.append(pad + expr(i))
            return
        f = flags(roles[i - 1])
        param = ''
        if variant and k == 'function' and f['b'] and not f['g'] and not f['n'] and rng.random() < 0.4:
            param = rng.choice(PARAM_FORMS)
        lines.append(pad + ('%sdef f%d(%s):' % ('async ' if variant and rng.random() < 0.15 else '', i, param) if k == 'function' else 'class C%d:' % i))
        pad2 = pad + '    '
        n0 = len(lines)
        if f['g']:
            lines.append(pad2 + 'global x')
        if f['n']:
            lines.append(pad2 + 'nonlocal x')
        if f['b'] and not param:
            form = (rng.choice(BIND_FORMS) if variant else 'x = %d') % i
            if (':=' in form and k == 'class') or ('x: int' in form and (f['g'] or f['n'])):
                form = 'x = %d' % i
            for fl in form.split('\n'):
                lines.append(pad2 + fl)
        if f['r']:
            lines.append(pad2 + '_use(x)')
        stmts(i + 1, ind + 1)
        if len(lines) == n0:
            lines.append(pad2 + 'pass')
    stmts(1, 0)
    return '\n'.join(lines) + '\n'


class Walk(ast.NodeVisitor):
    """reads (Load names) and binding occurrences with the chain of enclosing scope nodes"""

    def __init__(self):
        self.stack = []
        self.reads = []      # (node, tuple(scope node ids path))
        self.binds = {}      # (line, col) -> path
        self.scopes = {}     # id(scope node) -> node
        self.comp_targets = {}   # id(comp node) -> set of target names
        self.globals_of = {}     # id(function node) -> names declared global

    def path(self):
        return tuple(self.stack)

    def visit_Name(self, n):
        if isinstance(n.ctx, ast.Load):
            self.reads.append((n, self.path()))
        elif isinstance(n.ctx, ast.Store):
            self.binds[(n.lineno, n.col_offset)] = self.path()

    def visit_arg(self, n):
        self.binds[(n.lineno, n.col_offset)] = self.path()
        if n.annotation:
            # annotations are evaluated in the enclosing scope
            top = self.stack.pop()
            self.visit(n.annotation)
            self.stack.append(top)

    def visit_ExceptHandler(self, n):
        if n.name:
            self.binds[(n.lineno, n.col_offset)] = self.path()
        self.generic_visit(n)

    def visit_Global(self, n):
        if self.stack:
            self.globals_of.setdefault(self.stack[-1], set()).update(n.names)

    def func(self, n):
        a = n.args
        if not isinstance(n, ast.Lambda):
            for dnode in n.decorator_list:
                self.visit(dnode)
            if n.returns:
                self.visit(n.returns)
        for dflt in a.defaults + [x for x in a.kw_defaults if x]:
            self.visit(dflt)
        self.stack.append(id(n))
        self.scopes[id(n)] = n
        for arg in getattr(a, 'posonlyargs', []) + a.args + a.kwonlyargs + [x for x in (a.vararg, a.kwarg) if x]:
            self.visit(arg)
        body = n.body if isinstance(n.body, list) else [n.body]
        for s in body:
            self.visit(s)
        self.stack.pop()

    visit_FunctionDef = visit_AsyncFunctionDef = visit_Lambda = func

    def visit_ClassDef(self, n):
        for x in n.decorator_list + n.bases + [k.value for k in n.keywords]:
            self.visit(x)
        self.stack.append(id(n))
        self.scopes[id(n)] = n
        for s in n.body:
            self.visit(s)
        self.stack.pop()

    def comp(self, n):
        gens = n.generators
        self.visit(gens[0].iter)            # evaluated in the enclosing scope
        self.stack.append(id(n))
        self.scopes[id(n)] = n
        self.comp_targets[id(n)] = {x.id for g in gens for x in ast.walk(g.target) if isinstance(x, ast.Name)}
        for gi, g in enumerate(gens):
            self.visit(g.target)
            if gi:
                self.visit(g.iter)
            for c in g.ifs:
                self.visit(c)
        for f in ('key', 'value', 'elt'):
            if hasattr(n, f):
                self.visit(getattr(n, f))
        self.stack.pop()

    visit_ListComp = visit_SetComp = visit_DictComp = visit_GeneratorExp = comp


def table_index(top):
    """symtable tables keyed by (type, name, lineno) for matching with AST scope nodes"""
    out = {}

    def rec(t):
        for c in t.get_children():
            out.setdefault((c.get_name(), c.get_lineno()), []).append(c)
            rec(c)
    rec(top)
    return out


def name_of(node):
    if isinstance(node, (ast.FunctionDef, ast.AsyncFunctionDef, ast.ClassDef)):
        return node.name
    # (list / set / dict comprehensions appear as generator expressions in the reference text, see as_generators)
    return {ast.Lambda: 'lambda', ast.ListComp: 'genexpr', ast.SetComp: 'genexpr', ast.DictComp: 'genexpr', ast.GeneratorExp: 'genexpr'}[type(node)]


def as_generators(source, tree):
    """the same text with every list / set / dict comprehension written as a generator expression (brackets -> parentheses, the
    colon of a dict comprehension -> `<`): CPython 3.12 inlines those comprehensions and drops their symbol tables, a generator
    expression has the same scoping rules and keeps its table.  Same length, same lines, same columns.  None if it does not compile."""
    lines = [bytearray(l.encode('utf-8')) for l in source.split('\n')]
    try:
        for n in ast.walk(tree):
            if isinstance(n, (ast.ListComp, ast.SetComp, ast.DictComp)):
                lines[n.lineno - 1][n.col_offset] = ord('(')
                lines[n.end_lineno - 1][n.end_col_offset - 1] = ord(')')
                if isinstance(n, ast.DictComp):
                    ln, col = n.key.end_lineno, n.key.end_col_offset
                    while True:
                        row = lines[ln - 1]
                        hit = row.find(b':', col)
                        hash_ = row.find(b'#', col)
                        if hit >= 0 and (hash_ < 0 or hit < hash_):
                            row[hit] = ord('<')
                            break
                        ln, col = ln + 1, 0
                        if ln > n.value.lineno:
                            return None
        ref = b'\n'.join(bytes(l) for l in lines).decode('utf-8')
        if ast.dump(ast.parse(ref)) == '':
            return None
        return ref
    except (SyntaxError, ValueError, IndexError):
        return None


def analyse(source, filename, spec_owners=None, pinned=False):
    """-> case dict or None"""
    from supp.project import Project
    from supp.nast import extract_scope
    from supp.util import Source, get_name_usages, np
    from supp.name import MultiName, UndefinedName, RuntimeName
    tree = ast.parse(source)
    w = Walk()
    w.visit(tree)
    top = symtable.symtable(as_generators(source, tree) or source, filename, 'exec')
    tindex = table_index(top)
    used = {}

    def table_for(node):
        key = (name_of(node), node.lineno)
        lst = tindex.get(key, [])
        if len(lst) == 1:
            return lst[0]
        # several scopes with one name on one line (e.g. two lambdas): ambiguous, skip the reads inside
        return None

    # scope ids: 0 = module, others numbered in order of first appearance
    ids = {}

    def sid(path):
        if not path:
            return 0
        key = path[-1]
        if key not in ids:
            ids[key] = len(ids) + 1
        return ids[key]
    norm = {0: 0}
    parent = {0: 0}

    def register(path):
        for k in range(1, len(path) + 1):
            s = sid(path[:k])
            p = sid(path[:k - 1])
            parent[s] = p
            node = w.scopes[path[k - 1]]
            norm[s] = norm[p] if isinstance(node, COMPS) else s

    def sym_owner(path, name):
        """owner scope id of `name` read in the scope `path` according to symtable; None if undecidable"""
        tabs = [top]
        for k in range(1, len(path) + 1):
            t = table_for(w.scopes[path[k - 1]])
            if t is None:
                return None
            tabs.append(t)
        try:
            s = tabs[-1].lookup(name)
        except KeyError:
            return None
        if len(tabs) == 1 or s.is_global():
            return 0
        if s.is_free():
            for j in range(len(tabs) - 2, 0, -1):
                if tabs[j].get_type() != 'function':
                    continue
                try:
                    sj = tabs[j].lookup(name)
                except KeyError:
                    continue
                if sj.is_local() and not sj.is_free() and not sj.is_global():
                    return sid(path[:j])
                if sj.is_global():
                    return 0
            return None
        if s.is_local():
            return sid(path)
        return 0

    def effective_owner(bpath, name):
        """the scope a binding of `name` written in scope `bpath` takes effect in"""
        return sym_owner(bpath, name)

    project = Project(['/nonexistent-verif-root'])
    src = Source(source, filename)
    extract_scope(src, project)
    nodes = {np(n): n for n in get_name_usages(src.tree)}
    reads = []
    for n, path in w.reads:
        register(path)
        so = sym_owner(path, n.id)
        if so is None:
            continue
        sn_node = nodes.get((n.lineno, n.col_offset))
        fl = getattr(sn_node, 'flow', None)
        if fl is None:
            continue
        sn = fl.names_at((n.lineno, n.col_offset)).get(n.id)
        if sn is None:
            continue
        al = sn.alt_names if isinstance(sn, MultiName) else [sn]
        alts = []
        unknown = False
        leaked = False
        for a in al:
            if type(a) is UndefinedName:
                continue
            if isinstance(a, RuntimeName):
                alts.append(0)
                continue
            da = getattr(a, 'declared_at', None)
            bpath = w.binds.get(tuple(da)) if da else None
            if bpath is None:
                # def / class / import names: their binding scope is where the statement sits; find by supp's own scope
                # chain is not trustworthy here, so locate the statement through the AST
                bpath = STMT_PATHS.get((id(tree), da[0])) if da else None
            if bpath is None:
                unknown = True
                continue
            register(bpath)
            eo = effective_owner(bpath, n.id)
            if bpath and isinstance(w.scopes[bpath[-1]], COMPS) and tuple(path[:len(bpath)]) != tuple(bpath) and eo == sid(bpath):
                # the target of a comprehension the read is not part of (finding C05-comp-target-leaks); a walrus inside the
                # comprehension is not such a target: it belongs to the scope the comprehension is written in and is compared
                leaked = True
            if eo is None:
                unknown = True
                continue
            alts.append(eo)
        # a class-body read of a name the class itself binds is not compared
        skip = False
        if path:
            node = w.scopes[path[-1]]
            if isinstance(node, ast.ClassDef):
                t = table_for(node)
                try:
                    skip = t is not None and t.lookup(n.id).is_local()
                except KeyError:
                    skip = False
        # open finding C05-comp-target-leaks (known_findings.json): after a comprehension its targets stay visible as
        # possibly-defined names of the enclosing scope (pinned by tests/test_scope.py::test_lambda_in_gen_expression);
        # reads that pick up such a leaked target are excluded, the pinned input keeps the finding observable
        known = 'C' if leaked else ''
        spec = -1
        if spec_owners is not None and n.id == 'x':
            depth = len(path)
            spec = spec_owners[depth - 1] if depth >= 1 else 0
            # ids are assigned in order of appearance = depth for a chain
        reads.append({'scope': sid(path), 'spec': spec, 'sym': so, 'alts': alts, 'skip': bool(skip or (known and not pinned)), 'name': n.id,
                      'pos': [n.lineno, n.col_offset], 'partial': unknown, 'known': known})
    nmax = max([0] + list(norm))
    return {'reads': reads, 'norm': [norm.get(i, i) for i in range(nmax + 1)]}


STMT_PATHS = {}


def index_statements(tree):
    """line of a def / class / import statement -> path of enclosing scopes (binding scope of the name it defines)"""
    class V(Walk):
        def generic_stmt(self, n):
            STMT_PATHS[(id(tree), n.lineno)] = self.path()

        def func(self, n):
            if not isinstance(n, ast.Lambda):
                STMT_PATHS[(id(tree), n.lineno)] = self.path()
            Walk.func(self, n)
        visit_FunctionDef = visit_AsyncFunctionDef = visit_Lambda = func

        def visit_ClassDef(self, n):
            STMT_PATHS[(id(tree), n.lineno)] = self.path()
            Walk.visit_ClassDef(self, n)

        def visit_Import(self, n):
            for ln in range(n.lineno, (n.end_lineno or n.lineno) + 1):
                STMT_PATHS[(id(tree), ln)] = self.path()
        visit_ImportFrom = visit_Import
    v = V()
    v.visit(tree)
    return v


def main():
    data = json.load(sys.stdin)
    out = []
    for item in data.get('chains', []):
        cid, chain, owners = item[:3]
        src = render(chain, item[3] if len(item) > 3 else 0)
        try:
            compile(src, '<chain>', 'exec')
        except SyntaxError as e:
            out.append({'id': cid, 'illegal': str(e), 'source': src})
            continue
        try:
            c = analyse(src, '/nonexistent-verif-root/chain.py', owners)
        except Exception as e:  # noqa
            out.append({'id': cid, 'error': '%s: %s' % (type(e).__name__, e), 'source': src})
            continue
        c.update({'id': cid, 'source': src, 'chain': chain, 'variant': item[3] if len(item) > 3 else 0})
        out.append(c)
    for cid, src in data.get('pinned', []):
        c = analyse(src, '/nonexistent-verif-root/pinned.py', None, pinned=True)
        c.update({'id': cid, 'source': src, 'pinned': True})
        out.append(c)
    for cid, path in data.get('files', []):
        try:
            src = open(path, encoding='utf-8').read()
            tree = ast.parse(src)
            for n in ast.walk(tree):
                if type(n).__name__ in ('TryStar', 'Match', 'TypeAlias') or getattr(n, 'type_params', None):
                    raise ValueError('outside the modelled syntax')
            c = analyse_file(src, path)
        except Exception as e:  # noqa
            out.append({'id': cid, 'skipped': '%s: %s' % (type(e).__name__, e), 'file': path})
            continue
        c.update({'id': cid, 'file': path})
        out.append(c)
    json.dump(out, sys.stdout)


def analyse_file(src, path):
    # analyse() parses again; register the statement paths for the tree it will build: parse here and patch ast.parse
    real_parse = ast.parse
    holder = {}

    def parse_once(s, *a, **kw):
        t = real_parse(s, *a, **kw)
        if s is src and 'tree' not in holder:
            holder['tree'] = t
            index_statements(t)
        return t
    ast.parse = parse_once
    try:
        return analyse(src, path)
    finally:
        ast.parse = real_parse


if __name__ == '__main__':
    main()
