"""Worker for C06: renders class hierarchies (from Attrs.tla) into project modules, executes them under CPython (reference)
and asks the real supp for attribute proposals and go-to-definition.
stdin: {"vectors": [[id, vec, variant]], "base": dir}; stdout: list of cases for AttrsCheck.tla"""
import importlib.util
import json
import os
import shutil
import sys

ATTRS = ['p', 'q', 'r']
# how the model's attribute names are spelt: plain, or q as a method every class inherits a builtin version of
SPELL = {'plain': {'p': 'p', 'q': 'q', 'r': 'r'}, 'dunder': {'p': 'p', 'q': '__repr__', 'r': 'r'}}


def render(h, variant):
    """-> {filename: text}, main file, site table {(file, line): site}, class -> (module, expr used in main)"""
    n = len(h['bases'])
    split = variant['split']          # classes 1..split live in hm1.py, the rest in hm2.py (0 = all in one module)
    imp = variant['imp']              # how hm2 reaches hm1: 'from' | 'import' | 'star'
    nm = SPELL[variant.get('names', 'plain')]
    files = {}
    sites = {}
    mod_of = {}

    def class_text(i, base_expr):
        lines = []
        bases = ', '.join(base_expr(b) for b in h['bases'][i - 1]) or 'object'
        lines.append('class K%d(%s):' % (i, bases))
        body = []
        for a in sorted(h['own'][i - 1]):
            if variant.get('cond'):
                # the same definition under a condition that holds; the module binds the name too (a decoy no lookup on K finds)
                body.append(('    if COND:', None))
                body.append(('        def %s(self):' % nm[a], ('class', a)))
                body.append(('            return "%d"' % i, None))
            else:
                body.append(('    def %s(self):' % nm[a], ('class', a)))
                body.append(('        return "%d"' % i, None))
        if h['selfs'][i - 1]:
            body.append(('    def init%d(self):' % i, None))
            for a in sorted(h['selfs'][i - 1]):
                body.append(('        self.%s = %d' % (nm[a], i), ('inst', a)))
            if variant.get('bareann'):
                # a bare annotation assigns nothing: no instance gets the attribute from it
                body.append(('        self.%s: int' % nm['q'], None))
        if not body:
            body.append(('    pass', None))
        return lines, body
    mods = {'hm1': [], 'hm2': []} if split else {'hm1': []}
    for i in range(1, n + 1):
        mod_of[i] = 'hm1' if (not split or i <= split) else 'hm2'
    for m in mods:
        out = []
        if variant.get('cond'):
            out += ['COND = True', 'p = 0', 'q = 0']
        if m == 'hm2':
            if imp == 'from':
                out.append('from hm1 import ' + ', '.join('K%d' % i for i in range(1, n + 1) if mod_of[i] == 'hm1'))
            elif imp == 'fromas':
                out.append('from hm1 import ' + ', '.join('K%d as A%d' % (i, i) for i in range(1, n + 1) if mod_of[i] == 'hm1'))
            elif imp == 'star':
                out.append('from hm1 import *')
            else:
                out.append('import hm1')
        for i in range(1, n + 1):
            if mod_of[i] != m:
                continue

            def base_expr(b, m=m):
                if mod_of[b] != m and imp == 'fromas':
                    return 'A%d' % b
                if mod_of[b] == m or imp in ('from', 'star'):
                    return 'K%d' % b
                return 'hm1.K%d' % b
            head, body = class_text(i, base_expr)
            out += head
            for text, site in body:
                out.append(text)
                if site:
                    sites[(m, len(out))] = [i, site[0], site[1]]
        files[m + '.py'] = '\n'.join(out) + '\n'
    return files, sites, mod_of


def cpython_reference(root, h, mod_of, nm):
    sys.path.insert(0, root)
    try:
        for m in ('hm1', 'hm2'):
            sys.modules.pop(m, None)
        mods = {}
        for m in sorted(set(mod_of.values())):
            spec = importlib.util.spec_from_file_location(m, os.path.join(root, m + '.py'))
            mod = importlib.util.module_from_spec(spec)
            sys.modules[m] = mod
            spec.loader.exec_module(mod)
            mods[m] = mod
        n = len(h['bases'])
        cls = {i: getattr(mods[mod_of[i]], 'K%d' % i) for i in range(1, n + 1)}
        idx = {v: k for k, v in cls.items()}
        out = {}
        for i in range(1, n + 1):
            mro = [idx[c] for c in cls[i].__mro__ if c in idx]
            obj = cls[i]()
            for c in cls[i].__mro__:
                if c in idx and hasattr(c, 'init%d' % idx[c]):
                    getattr(c, 'init%d' % idx[c])(obj)
            inst, klass, props = {}, {}, set()
            for a in ATTRS:
                if nm[a] in obj.__dict__:
                    # every class of the MRO that assigns it through self
                    inst[a] = [[idx[c], 'inst', a] for c in cls[i].__mro__ if c in idx and a in h['selfs'][idx[c] - 1]]
                for c in cls[i].__mro__:
                    if c in idx and nm[a] in vars(c):
                        klass[a] = [[idx[c], 'class', a]]
                        break
            for c in cls[i].__mro__:
                if c in idx:
                    props |= {a for a in ATTRS if nm[a] in vars(c)}
            props |= {a for a in ATTRS if nm[a] in obj.__dict__}
            out[i] = {'mro': mro, 'inst': inst, 'klass': klass, 'props': sorted(props)}
        return out
    finally:
        sys.path.remove(root)
        for m in ('hm1', 'hm2'):
            sys.modules.pop(m, None)


def main():
    from supp.project import Project
    from supp import assistant
    data = json.load(sys.stdin)
    out = []
    for cid, vec, variant in data['vectors']:
        h = vec['h']
        n = len(h['bases'])
        root = os.path.join(data['base'], 'H%d' % cid)
        shutil.rmtree(root, ignore_errors=True)
        os.makedirs(root)
        files, sites, mod_of = render(h, variant)
        for f, t in files.items():
            open(os.path.join(root, f), 'w').write(t)
        try:
            nm = SPELL[variant.get('names', 'plain')]
            ref = cpython_reference(root, h, mod_of, nm)
        except Exception as e:  # noqa
            out.append({'id': cid, 'error': 'cpython: %s: %s' % (type(e).__name__, e), 'files': files})
            continue
        site_by_file_line = {(os.path.join(root, m + '.py'), ln): s for (m, ln), s in sites.items()}
        mainfile = os.path.join(root, 'main.py')
        queries, props = [], []
        for i in range(1, n + 1):
            m = mod_of[i]
            forms = []
            how = variant['main']
            if how == 'from':
                pre = 'from %s import K%d\n' % (m, i)
                k = 'K%d' % i
            elif how == 'fromas':
                pre = 'from %s import K%d as Q\n' % (m, i)
                k = 'Q'
            elif how == 'star':
                pre = 'from %s import *\n' % m
                k = 'K%d' % i
            else:
                pre = 'import %s\n' % m
                k = '%s.K%d' % (m, i)
            forms.append(('inst', pre + 'obj = %s()\n' % k, 'obj'))
            forms.append(('call', pre, '%s()' % k))
            forms.append(('class', pre, k))
            forms.append(('func', pre + 'def make():\n    return %s()\n' % k, 'make()'))
            # self / cls inside the methods of a subclass that defines nothing else
            forms.append(('self', pre + 'class Z(%s):\n    def zm(self):\n' % k, '        self'))
            forms.append(('cls', pre + 'class Z(%s):\n    @classmethod\n    def zc(cls):\n' % k, '        cls'))
            for form, head, expr in forms:
                project = Project([root])
                is_class = form in ('class', 'cls')
                # proposals
                src = head + expr + '.x\n'
                ln = src.count('\n')
                try:
                    with project.check_changes():
                        _, got = assistant.assist(project, src, (ln, len(expr) + 1), mainfile)
                    got = set(got)
                    pok = True
                except Exception as e:  # noqa
                    got, pok = set(), False
                exp_names = sorted({a for a in ATTRS if a in ref[i]['klass']} if is_class else set(ref[i]['props']))
                spec_names = sorted(vec['props'][i - 1]) if not is_class else sorted(a for k_, a in enumerate(ATTRS) if vec['csites'][i - 1][k_])
                props.append({'cls': i, 'form': form, 'spec': spec_names, 'ref': exp_names,
                              'missing': sorted(a for a in exp_names if nm[a] not in got) if pok else ['<assist raised>']})
                for ai, a in enumerate(ATTRS):
                    spec_sites = vec['csites'][i - 1][ai] if is_class else vec['sites'][i - 1][ai]
                    ref_sites = ref[i]['klass'].get(a, []) if is_class else (ref[i]['inst'].get(a) or ref[i]['klass'].get(a, []))
                    if not ref_sites and not spec_sites:
                        continue
                    src = head + expr + '.' + nm[a] + '\n'
                    ln = src.count('\n')
                    land, lok = [], True
                    try:
                        with project.check_changes():
                            res = assistant.location(project, src, (ln, len(expr) + 1), mainfile)
                        if res:
                            last = res[-1]
                            last = last if isinstance(last, list) else [last]
                            for e in last:
                                s = site_by_file_line.get((e['file'], e['loc'][0]))
                                land.append(s if s else [0, 'unknown:%s:%s' % (os.path.basename(str(e['file'])), e['loc'][0]), a])
                    except Exception as e:  # noqa
                        lok = False
                    queries.append({'cls': i, 'attr': a, 'form': form, 'spec': spec_sites, 'ref': ref_sites, 'land': land, 'lok': lok})
        out.append({'id': cid, 'queries': queries, 'props': props, 'files': files, 'variant': variant, 'h': h})
        shutil.rmtree(root, ignore_errors=True)
    json.dump(out, sys.stdout)


if __name__ == '__main__':
    main()
