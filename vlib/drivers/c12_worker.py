"""Worker for C12: real assist() calls at generated cursor contexts and at name reads / attribute accesses / import
names of real files, with the transparency baseline computed from the analysis of the UNMARKED source.
stdin: {"contexts": [[id, cx]], "files": [[id, path, n, seed]], "programs": [[id, source]]}; stdout: list of cases"""
import ast
from vlib import astpos  # noqa
import json
import random
import sys

PRE = {'bol': '', 'space': 'zz = ', 'lparen': 'zz = (', 'lbracket': 'zz = [', 'lbrace': 'zz = {', 'comma': 'zz = (1,', 'equals': 'zz =',
       'plus': 'zz = 1+', 'colon': 'zz = {1:', 'dot': 'zz = alpha.', 'semicolon': 'zz = 1;', 'star': 'zz = 2*', 'at': 'zz = alpha@',
       'minus': 'zz = -', 'not': 'zz = not '}
CLOSE = {'lparen': ')', 'lbracket': ']', 'lbrace': '}', 'comma': ')', 'colon': '}'}
RUNS = {'ascii': ['', 'a', 'al', 'alp'], 'under9': ['', '_', '_9', '_9a'], 'nonascii': ['', '\u00e4', '\u00e4\u00df', '\u00e4\u00dfp']}
FOL = {'eol': '', 'space': ' ', 'ident': 'ha', 'rparen': None, 'comma': None, 'dot': '.real'}


def instantiate(cx):
    """(source, (line, col)) or None"""
    abc = cx.get('abc', 'ascii')
    pre, run, fol, ctx = cx['pre'], RUNS[abc][cx['run']], cx['fol'], cx['ctx']
    if abc != 'ascii' and (cx['run'] == 0 or ctx in ('import', 'fromimport')):
        return None         # same text as the ascii context / module names are ASCII here
    head = 'alpha = 1\nalphabet = 2\n_9ab = 3\n\u00e4\u00dfpha = 4\n'
    if ctx == 'code':
        left = PRE[pre] + run
        close = CLOSE.get(pre, '')
        if fol == 'rparen':
            if pre not in ('lparen', 'comma'):
                return None
            right = ''
        elif fol == 'comma':
            if pre not in ('lparen', 'lbracket', 'lbrace', 'comma'):
                return None
            right = ', 3'
        else:
            right = FOL[fol]
        line = left + right + close
    elif ctx in ('call', 'kwarg', 'subscript', 'dict', 'slice', 'annotation'):
        if pre not in ('lparen', 'comma', 'equals', 'space', 'colon', 'lbracket') or fol not in ('eol', 'ident', 'rparen'):
            return None
        opener = {'call': 'print(', 'kwarg': 'print(end=', 'subscript': 'alphabet[', 'dict': 'zz = {1: ', 'slice': 'alphabet[1:', 'annotation': 'zz: '}[ctx]
        closer = {'call': ')', 'kwarg': ')', 'subscript': ']', 'dict': '}', 'slice': ']', 'annotation': ' = 1'}[ctx]
        if (ctx, pre) not in (('call', 'lparen'), ('kwarg', 'equals'), ('subscript', 'lbracket'), ('dict', 'space'), ('slice', 'colon'),
                              ('annotation', 'space'), ('call', 'comma')):
            return None
        if ctx == 'call' and pre == 'comma':
            opener = 'print(1,'
        left = opener + run
        line = left + (FOL[fol] or '') + closer
    elif ctx == 'string':
        if pre not in ('space', 'lparen', 'dot') or fol not in ('eol', 'space', 'ident'):
            return None
        left = 'zz = "text' + {'space': ' ', 'lparen': '(', 'dot': '.'}[pre] + run
        line = left + (FOL[fol] or '') + '"'
    elif ctx == 'fstring':
        if pre not in ('lbrace',) or fol not in ('eol',):
            return None
        left = 'zz = f"{' + run
        line = left + '}"'
    elif ctx == 'comment':
        if pre not in ('space', 'dot', 'equals') or fol not in ('eol', 'space', 'ident'):
            return None
        left = 'zz = 1  # note' + {'space': ' ', 'dot': '.', 'equals': '='}[pre] + run
        line = left + (FOL[fol] or '')
    elif ctx == 'attrstore':
        if pre != 'dot' or fol not in ('eol', 'ident', 'space'):
            return None
        head = 'class K:\n    def m(self):\n        self.alpha = 1\n        self._9ab = 1\n        self.\u00e4\u00dfpha = 1\n'
        left = '        self.' + run
        line = left + ('ha' if fol == 'ident' else 'x' if not run else '') + ' = 2'
    elif ctx == 'pkgattr':
        if pre != 'dot' or fol not in ('eol', 'ident') or abc != 'ascii':
            return None
        head = 'import xml.etree.ElementTree\nimport email.mime.text\n'
        left = 'zz = ' + ('xml.' + {'': '', 'a': 'e', 'al': 'et', 'alp': 'etr'}[run] if cx['run'] % 2 == 0 else 'email.' + {'a': 'm', 'alp': 'mim'}[run])
        line = left + ('ee' if fol == 'ident' else '')
    elif ctx == 'fromline':
        if pre != 'space' or fol not in ('eol', 'ident') or cx['run'] == 0:
            return None
        if cx['run'] % 2:
            head += 'def f():\n    raise ValueError() \\\n'
            left = '        from ' + run
            line = left + ('ha' if fol == 'ident' else '')
        else:
            head += 'def f(gen):\n    zz = (yield\n'
            left = ' from ' + run
            line = left + ('ha' if fol == 'ident' else '') + ')'
    elif ctx == 'import':
        if pre not in ('space', 'dot', 'comma') or fol not in ('eol', 'ident'):
            return None
        left = {'space': 'import ', 'dot': 'import os.', 'comma': 'import sys,'}[pre] + {'': '', 'a': 'p', 'al': 'pa', 'alp': 'pat'}[run]
        line = left + ('h' if fol == 'ident' else '')
        if line.rstrip().endswith(('import', '.', ',')):
            line = left
    elif ctx == 'fromimport':
        if pre not in ('space', 'comma', 'lparen') or fol not in ('eol', 'ident'):
            return None
        left = {'space': 'from os import ', 'comma': 'from os import sep,', 'lparen': 'from os import ('}[pre] + {'': '', 'a': 'p', 'al': 'pa', 'alp': 'pat'}[run]
        line = left + ('h' if fol == 'ident' else '') + (')' if pre == 'lparen' else '')
    else:
        return None
    src = head + line + '\n'
    ln = head.count('\n') + 1
    return src, (ln, len(left))


def codes(s):
    return [ord(c) for c in s]


def baseline_name(src, fn, pos, project):
    """names the unmarked analysis makes visible at the cursor, in the region of the name read that ends at / contains the cursor"""
    from supp.nast import extract_scope
    from supp.util import Source, get_name_usages, np
    try:
        source = Source(src, fn)
        top = extract_scope(source, project)
    except SyntaxError:
        return None
    for n in get_name_usages(source.tree):
        if n.lineno == pos[0] and n.col_offset <= pos[1] <= n.col_offset + len(n.id) and n.col_offset < pos[1]:
            fl = getattr(n, 'flow', None)
            if fl is None:
                return None
            # the region table plus the module variables functions create through `global` (kept beside the region tables)
            return sorted(set(fl.names_at(pos)) | set(getattr(top, '_global_names', {})))
    return None


def baseline_attr(src, fn, pos, project):
    from supp.nast import extract_scope
    from supp.util import Source
    from supp.evaluator import EvalCtx
    try:
        source = Source(src, fn)
        extract_scope(source, project)
    except SyntaxError:
        return None
    for n in ast.walk(source.tree):
        if isinstance(n, ast.Attribute) and isinstance(n.ctx, ast.Load) and n.end_lineno == pos[0] and n.lineno == pos[0]:
            start = n.end_col_offset - len(n.attr)
            if start <= pos[1] <= n.end_col_offset:
                ctx = EvalCtx(project)
                v = ctx.evaluate(n.value)
                return sorted(v.attr_list(ctx)) if v else []
    return None


def one_call(cid, src, fn, pos, project, kind, meta):
    from supp import assistant
    lines = src.split('\n')
    left = lines[pos[0] - 1][:pos[1]] if pos[0] - 1 < len(lines) else ''
    try:
        prefix, props = assistant.assist(project, src, pos, fn)
    except SyntaxError:
        return None
    except Exception as e:  # totality is C08
        return {'skip': '%s: %s' % (type(e).__name__, e)}
    props = list(props)
    expected, transparent = [], False
    if kind == 'name':
        b = baseline_name(src, fn, pos, project)
        if b is not None:
            expected, transparent = b, True
    elif kind == 'attr':
        b = baseline_attr(src, fn, pos, project)
        if b is not None:
            expected, transparent = b, True
    if not all(ord(c) < 128 for c in left):
        if 'cx' not in meta:
            return None      # real files: the cursor comes from AST columns (UTF-8 bytes), the text is cut by characters
        transparent = False  # generated contexts: the cursor is a character offset; only the textual clauses apply
    return {'id': cid, 'left': codes(left[-60:]), 'prefix': codes(prefix), 'proposals': [codes(p) for p in props],
            'kind': kind, 'transparent': transparent, 'expected': [codes(p) for p in expected], 'meta': meta}


def main():
    from supp.project import Project
    data = json.load(sys.stdin)
    out = []
    fn0 = '/nonexistent-verif-root/ctx.py'
    for cid, cx in data.get('contexts', []):
        inst = instantiate(cx)
        if inst is None:
            continue
        src, pos = inst
        kind = {'import': 'import', 'fromimport': 'import', 'attrstore': 'attrstore', 'string': 'other', 'comment': 'other', 'pkgattr': 'attr'}.get(cx['ctx'], 'name')
        if cx['pre'] == 'dot' and cx['ctx'] == 'code':
            kind = 'attr'
        if kind == 'name' and cx['run'] == 0:
            kind = 'other'        # no identifier left of the cursor: nothing to be transparent about
        r = one_call(cid, src, fn0, pos, Project(['/nonexistent-verif-root']), kind, {'cx': cx, 'source': src, 'pos': list(pos)})
        if r and 'skip' not in r:
            out.append(r)
    for cid, path, n, seed in data.get('files', []):
        rng = random.Random(seed)
        try:
            src = open(path, encoding='utf-8').read()
            tree = astpos.parse(src)
        except Exception:
            continue
        import os
        project = Project([os.path.dirname(path)])
        sites = []
        for nd in ast.walk(tree):
            if isinstance(nd, ast.Name) and isinstance(nd.ctx, ast.Load) and len(nd.id) > 1:
                sites.append(('name', nd.lineno, nd.col_offset, len(nd.id)))
            elif isinstance(nd, ast.Attribute) and nd.lineno == nd.end_lineno:
                sites.append(('attr' if isinstance(nd.ctx, ast.Load) else 'attrstore', nd.end_lineno, nd.end_col_offset - len(nd.attr), len(nd.attr)))
        rng.shuffle(sites)
        k = 0
        for kind, ln, col, L in sites[:n]:
            for off in {L, rng.randint(0 if kind != 'name' else 1, L)}:
                r = one_call(cid * 10000 + k, src, path, (ln, col + off), project, kind, {'file': path, 'pos': [ln, col + off]})
                k += 1
                if r and 'skip' not in r:
                    out.append(r)
    json.dump(out, sys.stdout)


if __name__ == '__main__':
    main()
