"""Worker for C14: exercises the real supp.umsgpack (dumps / loads) on vectors produced by
the TLA+ reference model and on random nested values; produces the case records judged by
spec/MsgPackCheck.tla.  Representation of byte strings: segments [b, 0] (one byte) or
[h, n] (opaque run of n payload bytes with content identity h)."""
import json
import random
import struct
import sys
import zlib

LIT = 40     # payloads up to this many bytes are spelt out


def pattern(h, n):
    return bytes(((h * 7 + i * 3) % 26) + 97 for i in range(n))


def run_id(data):
    n = len(data)
    if data == pattern(n, n):
        return n
    return 1000000 + (zlib.crc32(data) & 0x3fffffff)


def concretise(segs):
    out = bytearray()
    for b, r in segs:
        if r == 0:
            out.append(b)
        else:
            out += pattern(b, r)
    return bytes(out)


def payload_segs(data):
    if len(data) <= LIT:
        return [[x, 0] for x in data]
    return [[run_id(data), len(data)]]


def lit(data):
    return [[x, 0] for x in data]


def mag_of(n):
    n = abs(n)
    out = []
    while n:
        out.append(n & 255)
        n >>= 8
    return out[::-1]


def shape_of(v, um, f32bits=None):
    if v is None:
        return {'t': 'nil'}
    if isinstance(v, bool):
        return {'t': 'bool', 'b': int(v)}
    if isinstance(v, int):
        return {'t': 'int', 'neg': 1 if v < 0 else 0, 'mag': mag_of(v)}
    if isinstance(v, float):
        if f32bits is not None:
            return {'t': 'float', 'w': 4, 'bits': list(struct.pack('>f', v))}
        return {'t': 'float', 'w': 8, 'bits': list(struct.pack('>d', v))}
    if isinstance(v, str):
        d = v.encode('utf-8')
        return {'t': 'str', 'n': len(d), 'ty': 0, 'segs': payload_segs(d)}
    if isinstance(v, bytes):
        return {'t': 'bin', 'n': len(v), 'ty': 0, 'segs': payload_segs(v)}
    if isinstance(v, um.Ext):
        return {'t': 'ext', 'n': len(v.data), 'ty': v.type & 0xff, 'segs': payload_segs(v.data)}
    if isinstance(v, (list, tuple)):
        return {'t': 'arr', 'items': [shape_of(x, um) for x in v]}
    if isinstance(v, dict):
        return {'t': 'map', 'items': [[shape_of(k, um), shape_of(x, um)] for k, x in v.items()]}
    return {'t': 'unknown', 'cls': type(v).__name__}


def value_of(shape, um):
    """independent shape -> Python value (what a user would pass to dumps)"""
    t = shape['t']
    if t == 'nil':
        return None
    if t == 'bool':
        return bool(shape['b'])
    if t == 'int':
        n = 0
        for b in shape['mag']:
            n = n * 256 + b
        return -n if shape['neg'] else n
    if t == 'float':
        return struct.unpack('>d' if shape['w'] == 8 else '>f', bytes(shape['bits']))[0]
    if t in ('str', 'bin', 'ext'):
        data = concretise(shape['segs'])
        if t == 'str':
            return data.decode('utf-8')
        if t == 'bin':
            return data
        ty = shape['ty']
        return um.Ext(ty if ty < 128 else ty - 256, data)
    if t == 'arr':
        return [value_of(x, um) for x in shape['items']]
    if t == 'map':
        return {tuple_key(value_of(k, um)): value_of(v, um) for k, v in shape['items']}
    raise ValueError(t)


def tuple_key(k):
    return tuple(tuple_key(x) for x in k) if isinstance(k, list) else k


def try_loads(um, data):
    try:
        return 'ok', um.loads(data), ''
    except Exception as e:  # noqa
        return 'exc', None, type(e).__name__


def try_dumps(um, v):
    try:
        return 'ok', um.dumps(v), ''
    except Exception as e:  # noqa
        return 'exc', None, type(e).__name__


def cut_outcomes(um, data, limit_all=4096):
    W = len(data)
    if W <= limit_all:
        pts = range(W)
    else:
        pts = sorted(set(list(range(0, 12)) + list(range(W - 6, W)) + [W // 2, W // 3]))
    out = {}
    for p in pts:
        k, _, cls = try_loads(um, data[:p])
        out[p] = cls if k == 'exc' else 'ok'
    return out


def pick_cuts(outs, W, rng):
    """cut points shipped to TLC (the reference decoder re-decodes each): all of them for short
    encodings, a boundary-biased sample otherwise; every anomalous outcome is always shipped"""
    pts = sorted(outs)
    if len(pts) > 14:
        keep = set(pts[:4] + pts[-4:] + rng.sample(pts, 6))
    else:
        keep = set(pts)
    keep |= {p for p in pts if outs[p] != 'InsufficientDataException'}
    return [[p, outs[p]] for p in sorted(keep)]


def compress_encoding(data, shape):
    """real encoder output -> segments; only a single trailing str/bin/ext payload is folded into a run"""
    if shape['t'] in ('str', 'bin', 'ext') and shape['n'] > LIT and len(data) >= shape['n']:
        n = shape['n']
        return lit(data[:-n]) + [[run_id(data[-n:]), n]]
    return lit(data)


def items_for(kind, n):
    if kind == 'arr':
        return b'\xc0' * n, [None] * n
    # map: distinct integer keys 0..n-1 in minimal form -> nil
    out = bytearray()
    for i in range(n):
        if i < 128:
            out.append(i)
        elif i < 256:
            out += b'\xcc' + bytes([i])
        elif i < 65536:
            out += b'\xcd' + struct.pack('>H', i)
        else:
            out += b'\xce' + struct.pack('>I', i)
        out.append(0xc0)
    return bytes(out), {i: None for i in range(n)}


NONE = {'kind': 'none', 'cls': '', 'shape': {'t': 'nil'}, 'itemsok': True}
NONED = {'kind': 'none', 'cls': '', 'enc': [], 'restok': {'h1': False, 'h3': False, 'h5': False}}


def expand_short(segs):
    """runs of up to LIT bytes are spelt out (the same convention as payload_segs)"""
    out = []
    for b, r in segs:
        if 0 < r <= LIT:
            out += lit(pattern(b, r))
        else:
            out.append([b, r])
    return out


def case_from_vector(um, vid, vec, rng):
    kind, enc, shape = vec['kind'], expand_short(vec['enc']), dict(vec['shape'])
    if 'segs' in shape:
        shape['segs'] = expand_short(shape['segs'])
    case = {'id': vid, 'kind': kind, 'enc': enc, 'shape': shape, 'refuse': bool(vec['refuse']), 'big': False,
            'loads': dict(NONE), 'dumps': dict(NONED), 'cuts': []}
    if vec['refuse']:
        v = value_of(shape, um)
        k, data, cls = try_dumps(um, v)
        case['dumps'] = {'kind': k, 'cls': cls, 'enc': lit(data) if data is not None else [], 'restok': NONED['restok']}
        return case
    if kind in ('arr', 'map'):
        n = shape['n']
        head = concretise(enc)
        body, value = items_for(kind, n)
        data = head + body
        case['big'] = True
        k, res, cls = try_loads(um, data)
        ok = k == 'ok' and ((kind == 'arr' and res == value) or (kind == 'map' and res == value))
        rshape = {'t': 'arr' if isinstance(res, list) else 'map' if isinstance(res, dict) else 'other',
                  'n': len(res) if isinstance(res, (list, dict)) else -1}
        case['loads'] = {'kind': k, 'cls': cls, 'shape': rshape, 'itemsok': bool(ok)}
        outs = cut_outcomes(um, data, limit_all=600)
        case['cuts'] = pick_cuts(outs, len(data), rng)
        k, d2, cls = try_dumps(um, value)
        restok = {'h1': False, 'h3': False, 'h5': False}
        if d2 is not None:
            for h in (1, 3, 5):
                restok['h%d' % h] = (d2[h:] == body)
        case['dumps'] = {'kind': k, 'cls': cls, 'enc': lit(d2[:5]) if d2 is not None else [], 'restok': restok}
        return case
    data = concretise(enc)
    k, res, cls = try_loads(um, data)
    f32 = shape.get('t') == 'float' and shape.get('w') == 4
    case['loads'] = {'kind': k, 'cls': cls, 'shape': shape_of(res, um, f32bits=True if f32 else None) if k == 'ok' else {'t': 'nil'},
                     'itemsok': True}
    outs = cut_outcomes(um, data)
    case['cuts'] = pick_cuts(outs, len(data), rng)
    case['allcuts'] = len(outs)
    if shape['t'] != 'reserved' and not f32:
        try:
            v = value_of(shape, um)
        except Exception as e:  # e.g. Ext refuses a spec-valid type
            case['dumps'] = {'kind': 'exc', 'cls': 'value:' + type(e).__name__, 'enc': [], 'restok': NONED['restok']}
            return case
        k, d2, cls = try_dumps(um, v)
        case['dumps'] = {'kind': k, 'cls': cls, 'enc': compress_encoding(d2, shape) if d2 is not None else [],
                         'restok': NONED['restok']}
    return case


def random_value(rng, um, depth, budget=None):
    """random nested value; `budget` caps the number of nodes (TLC decodes every case several times)"""
    if budget is None:
        budget = [rng.choice([6, 12, 25, 60])]
    budget[0] -= 1
    r = rng.random()
    if depth <= 0 or r < 0.4 or budget[0] <= 0:
        c = rng.randrange(9)
        if c == 0:
            return None
        if c == 1:
            return rng.random() < 0.5
        if c == 2:
            return rng.choice([0, 1, -1, 127, 128, -32, -33, 255, 256, 65535, 65536, -32768, -32769, 2**31, -2**31 - 1,
                               2**32, 2**63 - 1, -2**63, 2**64 - 1, rng.randrange(-2**63, 2**64)])
        if c == 3:
            return rng.choice([0.0, -0.0, 1.5, float('inf'), float('-inf'), float('nan'), 1e308, 5e-324, rng.uniform(-1e6, 1e6)])
        if c == 4:
            return ''.join(rng.choice('abcé中\U0001f600 ') for _ in range(rng.choice([0, 1, 5, 31, 32, 12])))[:13]
        if c == 5:
            return bytes(rng.randrange(256) for _ in range(rng.choice([0, 1, 3, 16, 33])))
        if c == 6:
            return um.Ext(rng.choice([0, 1, 5, 127]), bytes(rng.randrange(256) for _ in range(rng.choice([0, 1, 2, 3, 4, 8, 16, 17]))))
        if c == 7:
            return rng.randrange(-40, 300)
        return 'k%d' % rng.randrange(1000)
    if r < 0.75:
        return [random_value(rng, um, depth - 1, budget) for _ in range(rng.choice([0, 1, 2, 3, 15, 16, 17]) if rng.random() < 0.2 else rng.randrange(4))]
    d = {}
    for _ in range(rng.choice([0, 1, 2, 3, 15, 16]) if rng.random() < 0.15 else rng.randrange(4)):
        k = rng.choice([rng.randrange(-5, 500), 'key%d' % rng.randrange(100), bytes([rng.randrange(256)]), None, True, 2.5,
                        (1, 'x'), rng.randrange(2**40)])
        d[k] = random_value(rng, um, depth - 1, budget)
    return d


def nan_safe_equal(a, b):
    if isinstance(a, float) and isinstance(b, float):
        return struct.pack('>d', a) == struct.pack('>d', b)
    if isinstance(a, (list, tuple)) and isinstance(b, (list, tuple)):
        return len(a) == len(b) and all(nan_safe_equal(x, y) for x, y in zip(a, b))
    if isinstance(a, dict) and isinstance(b, dict):
        return len(a) == len(b) and all(k in b and nan_safe_equal(v, b[k]) for k, v in a.items())
    return type(a) == type(b) and a == b


def main():
    import supp.umsgpack as um
    data = json.load(sys.stdin)
    rng = random.Random(data.get('seed', 0))
    mode = data['mode']
    out = []
    if mode == 'vectors':
        for vid, vec in data['vectors']:
            out.append(case_from_vector(um, vid, vec, rng))
    elif mode == 'random-values':
        # dumps direction: random nested values, judged by the reference decoder
        for i in range(data['n']):
            v = random_value(rng, um, rng.randrange(1, 7))
            shape = shape_of(v, um)
            k, enc, cls = try_dumps(um, v)
            case = {'id': data['base'] + i, 'kind': 'random', 'enc': lit(enc) if enc is not None else [], 'shape': shape,
                    'refuse': False, 'big': False, 'loads': dict(NONE),
                    'dumps': {'kind': k, 'cls': cls, 'enc': lit(enc) if enc is not None else [], 'restok': NONED['restok']},
                    'cuts': []}
            if enc is not None:
                k2, back, cls2 = try_loads(um, enc)
                # lossless: decoding the encoding gives an equal value (tuples come back as lists, tuple keys stay tuples)
                case['loads'] = {'kind': k2, 'cls': cls2, 'shape': shape_of(back, um) if k2 == 'ok' else {'t': 'nil'},
                                 'itemsok': bool(k2 == 'ok' and nan_safe_equal(listify(v), back))}
                outs = cut_outcomes(um, enc, limit_all=1500)
                case['cuts'] = pick_cuts(outs, len(enc), rng)
            out.append(case)
    elif mode == 'shapes':
        # random value shapes for the reference encoder (spec/MsgPackEnc.tla)
        for i in range(data['n']):
            v = random_value(rng, um, rng.randrange(1, 6))
            out.append({'id': data['base'] + i, 'shape': shape_of(v, um)})
    elif mode == 'streams':
        # loads direction: encodings chosen by the reference encoder
        for sid, enc, shape in data['streams']:
            raw = concretise(enc)
            k, res, cls = try_loads(um, raw)
            outs = cut_outcomes(um, raw, limit_all=1500)
            out.append({'id': sid, 'kind': 'stream', 'enc': enc, 'shape': shape, 'refuse': False, 'big': False,
                        'loads': {'kind': k, 'cls': cls, 'shape': shape_of(res, um) if k == 'ok' else {'t': 'nil'}, 'itemsok': True},
                        'dumps': dict(NONED), 'cuts': pick_cuts(outs, len(raw), rng)})
    json.dump(out, sys.stdout)


def listify(v):
    if isinstance(v, (list, tuple)):
        return [listify(x) for x in v]
    if isinstance(v, dict):
        return {k: listify(x) for k, x in v.items()}
    return v


if __name__ == '__main__':
    main()
