"""Worker: replay schedules on the real supp.remote.Environment (fresh interpreter,
/repo first on sys.path).  stdin: JSON {"jobs": [{id, ops, schedule, expect?, fail}]};
stdout: JSON list of {id, events, deadlock, drift, unknown, errors, steps}."""
import json
import sys


def main():
    import supp.remote as remote
    from vlib import sched
    data = json.load(sys.stdin)
    out = []
    for job in data['jobs']:
        schedule = []
        injects = {}
        for i, s in enumerate(job['schedule']):
            if isinstance(s, list):
                schedule.append(s[0])
                injects[i] = True
            else:
                schedule.append(s)
        r = run(remote, sched, job, schedule, injects)
        out.append(r)
    json.dump(out, sys.stdout)


def run(remote, sched, job, schedule, injects):
    if injects:
        # failure injection at given steps: wrap the schedule into a stepping hook
        orig_step = sched.World.step
        counter = {'i': -1}

        def step(self, name):
            counter['i'] += 1
            if injects.get(counter['i']):
                self.fail_connects = 1
            return orig_step(self, name)
        sched.World.step = step
    try:
        r = sched.run_schedule(remote, job['ops'], schedule, fail_connects=job.get('fail', 0),
                               expect=job.get('expect'))
    finally:
        if injects:
            sched.World.step = orig_step
    return {'id': job['id'], 'events': r['events'], 'deadlock': r['deadlock'],
            'drift': [[d[0], d[1], d[2], repr(d[3])[:300]] for d in r['drift'][:5]], 'ndrift': len(r['drift']),
            'unknown': r['unknown_labels'], 'errors': r['errors'], 'steps': r['steps'],
            'mispaired': sum(1 for e in r['events'] if e['info'] == 'mispaired')}


if __name__ == '__main__':
    main()
