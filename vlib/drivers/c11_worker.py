"""Worker for C11: collects every position the real supp reports for bindings of a source text, through three entry
points (the bindings enumerated for the module, lint warnings, go-to-definition), with the text found there.
stdin: {"jobs": [{id, source, filename, nloc}]}; stdout: [{id, cases: [...], skipped?}]"""
import ast
import json
import random
import re
import sys

LINESEP = re.compile(r'\r\n|\r|\n')


def tok_lines(text):
    """lines as Python's tokenizer sees them"""
    return LINESEP.split(text)


def cut(lines, line, col, n):
    if not (1 <= line <= len(lines)):
        return False, []
    s = lines[line - 1]
    if not (0 <= col <= len(s)):
        return False, []
    return True, [ord(c) for c in s[col:col + n]]


def main():
    from supp.project import Project
    from supp.linter import lint
    from supp.nast import extract_scope
    from supp.util import Source
    from supp import assistant
    from supp.name import ImportedName, AssignedName
    data = json.load(sys.stdin)
    out = []
    for job in data['jobs']:
        src, fn = job['source'], job['filename']
        rng = random.Random(job.get('seed', 0))
        lines = tok_lines(src)
        ascii_line = [all(ord(c) < 128 for c in l) for l in lines]
        try:
            tree = ast.parse(src)
            project = Project([job.get('root') or '/nonexistent-verif-root'])
            source = Source(src, fn)
            scope = extract_scope(source, project)
            diags = lint(project, src, fn)
        except Exception as e:  # totality is C08
            out.append({'id': job['id'], 'skipped': '%s: %s' % (type(e).__name__, e)})
            continue
        handler_pos = {(n.lineno, n.col_offset) for n in ast.walk(tree) if isinstance(n, ast.ExceptHandler) and n.name}
        bind = {}     # (line, col, name) -> case

        def case_for(name, pos, kind):
            key = (pos[0], pos[1], name)
            c = bind.get(key)
            if c is None:
                c = bind[key] = {'name': [ord(ch) for ch in name], 'kind': kind, 'reports': [], 'ident': name}
            return c

        # where identifier / keyword tokens start: a position inside another token (the d of `def`) is not the identifier
        tokstart = None
        try:
            import io
            import tokenize
            tokstart = {t.start: t.string for t in tokenize.generate_tokens(io.StringIO('\n'.join(lines)).readline) if t.type == tokenize.NAME}
        except Exception:  # noqa
            tokstart = None

        def report(c, via, pos, n):
            ok, text = cut(lines, pos[0], pos[1], n)
            c['reports'].append({'via': via, 'line': pos[0], 'col': pos[1], 'inrange': ok, 'text': text,
                                 'tok': bool(tokstart is None or tokstart.get(tuple(pos)) == ('except' if c['kind'] == 'except' else c['ident']))})
        for flow, nm in scope.all_names:
            if getattr(nm, 'is_star', False):
                continue            # star-imported names have no identifier in the text
            pos = getattr(nm, 'declared_at', None)
            if pos is None:
                continue
            if not (1 <= pos[0] <= len(lines)) or not ascii_line[pos[0] - 1]:
                if 1 <= pos[0] <= len(lines):
                    continue        # non-ASCII line: columns are byte offsets, outside the property's domain
            kind = 'except' if (tuple(pos) in handler_pos and isinstance(nm, AssignedName)) else 'name'
            c = case_for(nm.name, pos, kind)
            report(c, 'names', pos, 6 if kind == 'except' else len(nm.name))
        for d in diags:
            if d[0] in ('W01', 'W02'):
                name = d[1].split(': ', 1)[1]
                pos = (d[2], d[3])
                if 1 <= pos[0] <= len(lines) and not ascii_line[pos[0] - 1]:
                    continue
                key = (pos[0], pos[1], name)
                c = bind.get(key)
                if c is None:
                    # a warning about a binding that the module enumeration does not list at that position
                    kind = 'except' if pos in handler_pos else 'name'
                    c = case_for(name, pos, kind)
                report(c, 'lint', pos, 6 if c['kind'] == 'except' else len(name))
        # go-to-definition from a sample of reads
        import_bound = set()
        for nd in ast.walk(tree):
            if isinstance(nd, ast.Import):
                import_bound |= {a.asname or a.name.split('.')[0] for a in nd.names} | {a.name.split('.')[-1] for a in nd.names}
            elif isinstance(nd, ast.ImportFrom):
                import_bound |= {a.asname or a.name for a in nd.names}
        loads = [n for n in ast.walk(tree) if isinstance(n, ast.Name) and isinstance(n.ctx, ast.Load)
                 and 1 <= n.lineno <= len(lines) and ascii_line[n.lineno - 1]]
        rng.shuffle(loads)
        # ... and of attribute accesses (cursor inside the attribute name)
        attrs = [n for n in ast.walk(tree) if isinstance(n, ast.Attribute) and isinstance(n.ctx, ast.Load) and n.end_lineno == n.lineno
                 and 1 <= n.lineno <= len(lines) and ascii_line[n.lineno - 1]]
        rng.shuffle(attrs)
        nloc = 0
        line0 = 0
        attrsite = 0
        points = [(n, (n.lineno, n.col_offset + (1 if len(n.id) > 1 else len(n.id))), n.id) for n in loads[:job.get('nloc', 10)]]
        points += [(n, (n.end_lineno, n.end_col_offset - 1), n.attr) for n in attrs[:max(2, job.get('nloc', 10) // 3)]]
        for n, cur, ident in points:
            try:
                res = assistant.location(project, src, cur, fn)
            except Exception:
                continue
            flat = []
            for r in res:
                flat += r if isinstance(r, list) else [r]
            for r in flat:
                if r.get('file') != fn or not r.get('loc'):
                    continue
                pos = tuple(r['loc'])
                if pos == (1, 0) and ident in import_bound:
                    continue        # the read denotes a module (this very file, imported by itself): a module is reported at (1, 0)
                if pos == (0, 0):
                    # open finding C11-dotted-import-line0: the wrapper object of a dotted import is reported at line 0
                    # (pinned by tests/test_assistant_location.py); excluded here, observed through the pinned input
                    line0 += 1
                    continue
                if 1 <= pos[0] <= len(lines) and not ascii_line[pos[0] - 1]:
                    continue
                if 1 <= pos[0] <= len(lines) and lines[pos[0] - 1][pos[1]:pos[1] + 1] == '*' and 'import' in lines[pos[0] - 1]:
                    continue        # a star import: the bound identifier does not occur in the text
                kind = 'except' if pos in handler_pos else 'name'
                # which binding is it? the one the module enumeration lists at that position (else a case of its own)
                cands = [k for k in bind if k[0] == pos[0] and k[1] == pos[1]]
                if not cands and isinstance(n, ast.Attribute):
                    # an attribute-assignment site (`self.x = ...` is reported at the start of the target expression, as
                    # tests/test_assistant_location.py::test_instance_attributes_locations expects): open finding
                    # C11-attribute-assignment-position; counted when the text there is not the attribute name
                    ok_, text_ = cut(lines, pos[0], pos[1], len(ident))
                    if not ok_ or ''.join(map(chr, text_)) != ident:
                        attrsite += 1
                    continue
                name = cands[0][2] if cands else ident
                c = bind.get((pos[0], pos[1], name)) or case_for(name, pos, kind)
                report(c, 'location', pos, 6 if c['kind'] == 'except' else len(name))
                nloc += 1
        cases = []
        for key in sorted(bind):
            c = bind[key]
            cases.append(c)
        out.append({'id': job['id'], 'cases': cases, 'nloc': nloc, 'line0': line0, 'attrsite': attrsite})
    json.dump(out, sys.stdout)


if __name__ == '__main__':
    main()
