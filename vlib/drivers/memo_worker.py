"""Worker for the mechanism level of C04 (spec/Memo.tla): extracts the region graph of real analysis objects
(one graph per analysed text and identifier) and the region tables a fresh analysis computes for them.
stdin: {"texts": [[id, source]], "names": [...]}; stdout: [{id, regions: [...], real: [[names, pnames] per region], name, source}]"""
import json
import sys


def extract(source):
    from supp.project import Project
    from supp.nast import extract_scope
    from supp.util import Source
    return extract_scope(Source(source, '/nonexistent-verif-root/memo.py'), Project(['/nonexistent-verif-root']))


def table_flow(scope):
    """the region whose `names` a scope hands down to the scopes nested in it (None: not a source scope)"""
    from supp.scope import ClassScope
    while isinstance(scope, ClassScope):
        scope = scope.parent
    return getattr(scope, 'flow', None)


def graph(top, x):
    from supp.scope import LoopFlow, ClassScope, SourceScope
    flows = list(top._all_flows)
    idx = {id(f): i + 1 for i, f in enumerate(flows)}
    regions = []
    for f in flows:
        ps = []
        for p in f.parents:
            if isinstance(p, LoopFlow):
                ps.append(-idx[id(p.parent)])
            else:
                ps.append(idx[id(p)])
        up, masked = 0, False
        if not f.parents:
            psc = f.scope.parent
            tf = table_flow(psc) if psc is not None else None
            if tf is not None and id(tf) in idx:
                up = idx[id(tf)]
            masked = not isinstance(f.scope, (ClassScope, SourceScope)) and x in f.scope.locals
        regions.append({'own': any(n.name == x for n in f._names), 'parents': ps, 'up': up, 'masked': bool(masked)})
    return regions, flows


def value(tbl, x, owner):
    from supp.name import MultiName, UndefinedName
    v = tbl.get(x)
    if v is None:
        return [0]
    out = set()
    for a in (v.alt_names if isinstance(v, MultiName) else [v]):
        if type(a) is UndefinedName:
            out.add(0)
        else:
            out.add(owner.get(id(a), -1))
    return sorted(out)


def real_tables(source, x, nregions):
    """[names value, parent_names value] per region, each from a fresh analysis"""
    out = []
    for r in range(nregions):
        row = []
        for attr in ('names', 'parent_names'):
            top = extract(source)
            flows = list(top._all_flows)
            owner = {}
            for i, f in enumerate(flows):
                for n in f._names:
                    owner[id(n)] = i + 1
            row.append(value(getattr(flows[r], attr), x, owner))
        out.append(row)
    return out


def main():
    data = json.load(sys.stdin)
    out = []
    for tid, src in data['texts']:
        try:
            top = extract(src)
        except Exception:  # totality is C08's business
            continue
        if top._global_names:
            continue            # names under `global` live beside the region tables: outside this model
        for x in data['names']:
            regions, flows = graph(top, x)
            if not any(r['own'] for r in regions) or not any(p < 0 for r in regions for p in r['parents']):
                continue        # nothing to memoise wrongly without a binding and a loop
            if len(regions) > data.get('max_regions', 26):
                continue
            real = real_tables(src, x, len(regions))
            out.append({'id': len(out) + tid * 100, 'regions': regions, 'real': real, 'name': x, 'source': src})
    json.dump(out, sys.stdout)


if __name__ == '__main__':
    main()
