"""Worker for C15: run request histories through the real client + real server
subprocess and, in parallel, through the in-process API on an identically
configured Project.  stdin: {"jobs":[{id, seq:[class,...], seed}], "projdir": path};
stdout: JSON list of {id, records:[...], requests:[...]}."""
import ast
from vlib import astpos  # noqa
import hashlib
import json
import os
import random
import signal
import re
import sys


def canon(x):
    if isinstance(x, (list, tuple)):
        return [canon(i) for i in x]
    if isinstance(x, dict):
        return {'__dict__': sorted(([canon(k), canon(v)] for k, v in x.items()), key=lambda kv: json.dumps(kv[0], sort_keys=True))}
    if isinstance(x, float):
        return {'__float__': repr(x)}
    if isinstance(x, bytes):
        return {'__bytes__': x.hex()}
    if isinstance(x, (str, int, bool)) or x is None:
        return x
    return {'__other__': type(x).__name__}


def digest(x):
    s = json.dumps(canon(x), sort_keys=True)
    if len(s) > 200:
        return 'sha1:' + hashlib.sha1(s.encode()).hexdigest() + ':%d' % len(s)
    return s


def norm_reply(name, r):
    """the order of alternative definitions inside one location() entry is C17's business, not C15's:
    nested alternative lists are compared as sets here"""
    if name == 'location' and isinstance(r, (list, tuple)):
        return [sorted((canon(x) for x in e), key=lambda c: json.dumps(c, sort_keys=True)) if isinstance(e, (list, tuple)) else e for e in r]
    return r


def mask(msg):
    return re.sub(r'0x[0-9a-fA-F]+', '0x..', msg)


PROJECT = {
    'pkg/__init__.py': 'from .mod import Alpha, helper\nVERSION = "1"\n',
    'pkg/mod.py': ('import os\n\nclass Base(object):\n    base_attr = 1\n    def base_method(self):\n        self.from_base = 2\n        return self\n\n'
                   'class Alpha(Base):\n    alpha_attr = 3\n    def method(self, arg):\n        self.inst = arg\n        return os.path\n\n'
                   'def helper():\n    return Alpha()\n'),
    'util.py': 'import sys\nCONST = 42\n\ndef func(a, b=1):\n    local = a + b\n    return local\n\nclass Tool:\n    name = "t"\n',
    'star.py': 'from pkg.mod import *\nfrom util import CONST as C2\n',
}

SNIPPETS = [
    'import pkg\npkg.Alpha().method\nx = pkg.helper()\nx.inst\n',
    'from pkg import Alpha, helper\n\nclass Gamma(Alpha):\n    def run(self):\n        self.g = 1\n        return self.alpha_attr\n\nGamma().run\n',
    'from star import *\nAlpha.alpha_attr\nhelper().base_method\nC2\n',
    'import util\nutil.func\nutil.Tool.name\nvalue = util.CONST\nprint(value)\n',
    'import os.path\n\ndef f(a, b):\n    c = a\n    for i in b:\n        if i:\n            c = i\n    return c\n\nunused_local = os.path.join\n',
    'def g(x):\n    y = x\n    z = 1\n    return y\n\nimport sys\nundefined_thing\n',
    'x = "text"\nx.upper\ny = [1, 2]\nlen(y)\n',
    'class A:\n    def m(self):\n        self.q = 1\n    def n(self):\n        return self.q\n\na = A()\na.m\na.q\n',
    # top-level names that exist only as files of the library's own package directory: no import statement finds them
    'import merged_dict\nmerged_dict.MergedDict\nimport nast, umsgpack\nnast.extract\numsgpack.dumps\nfrom evaluator import EvalCtx\nEvalCtx.evaluate\n',
]


def name_ends(source):
    """positions (line, col) at the end of every Name / Attribute identifier"""
    out = []
    try:
        tree = astpos.parse(source)
    except SyntaxError:
        return out
    for n in ast.walk(tree):
        if isinstance(n, ast.Name):
            out.append((n.lineno, n.col_offset + len(n.id)))
        elif isinstance(n, ast.Attribute) and n.end_lineno == n.lineno:
            out.append((n.end_lineno, n.end_col_offset))
    return sorted(set(out))


class Local(object):
    """The in-process side."""

    def __init__(self):
        self.project = None

    def call(self, name, args, kwargs):
        from supp import assistant, linter
        from supp.project import Project
        if name == 'configure':
            config = args[0]
            self.project = Project(config['sources'], dyn_modules=config.get('dyn_modules'))
            return None
        if name == 'eval':
            src = args[0]
            ctx = {}
            body = '\n'.join('    ' + r for r in src.splitlines())
            exec('def boo():\n%s\nresult = boo()' % body, ctx)
            return ctx['result']
        source, rest = args[0], args[1:]
        with self.project.check_changes():
            if name == 'assist':
                return assistant.assist(self.project, source, tuple(rest[0]), rest[1])
            if name == 'location':
                return assistant.location(self.project, source, tuple(rest[0]), rest[1])
            if name == 'lint':
                return [r[:4] for r in linter.lint(self.project, source, rest[0])]
        raise AssertionError(name)


# requests that raise something that is no Exception, or whose message cannot be built (record class `evalbase`)
BASEEXC = ['raise SystemExit(%d)', 'import sys\nsys.exit(0)', 'raise KeyboardInterrupt("kbd %d")', 'raise GeneratorExit("gen")',
           'class E(Exception):\n    def __str__(self):\n        raise ValueError("str fails")\nraise E()',
           'class B(BaseException):\n    pass\nraise B("base %d")']


class _Timeout(BaseException):
    pass


def _alarm(signum, frame):
    raise _Timeout()


def make_request(cls, k, rng, projdir, corpus, big):
    """-> (method name, args, kwargs, has_local, nonce)"""
    nonce = 'n%d' % k
    if cls == 'cfg':
        cfg = {'sources': [projdir]}
        if rng.random() < 0.3:
            cfg['dyn_modules'] = ['json']
        return 'configure', [cfg], {}, True
    if cls == 'cfgbad':
        return 'configure', [rng.choice([{}, {'source': [projdir]}, {'dyn_modules': ['os']}])], {}, True
    if cls in ('api', 'raises'):
        fname, src = rng.choice(corpus)
        if big and rng.random() < 0.5:
            src = src + '\nBIG = """' + ('payload %d ' % k) * (big // 12) + '"""\n'
        src = src + '# %s\n' % nonce
        which = rng.choice(['lint', 'assist', 'location', 'assist', 'location'])
        if which == 'lint':
            return 'lint', [src, fname], {}, True
        ends = name_ends(src)
        if cls == 'raises' or not ends:
            # a cursor that breaks the syntax when the mark is inserted: inside a keyword / operator
            lines = src.split('\n')
            cand = [(i + 1, len(l)) for i, l in enumerate(lines) if l.rstrip().endswith(':')]
            pos = rng.choice(cand) if cand else (1, 0)
            src2 = src
            if not cand:
                src2 = 'def broken(:\n' + src
            return which, [src2, list(pos), fname], {}, True
        pos = rng.choice(ends)
        return which, [src, list(pos), fname], {}, True
    if cls == 'eval':
        exprs = ['%d' % k, '"s%d"' % k, '[%d, "x", None, True, 1.5]' % k, '{"k": %d, "nested": {"a": [1, 2, (3, 4)]}}' % k,
                 '(1, (2, (3, %d)))' % k, '-%d' % (k * 1000003), 'float("inf"), %d' % k, 'b"bytes%d"' % k, '2**63 + %d' % k,
                 '-2**63', '"\\u00e9\\u4e2d" * %d' % (k + 1), '[[]] * %d' % (k % 40), '{%d: "int key"}' % k]
        if big:
            exprs.append('"%d" + "A" * %d' % (k, big))
        if rng.random() < 0.04:
            # a request that takes a few seconds: its reply must still be its own, and the next request's too
            return 'eval', ['import time\ntime.sleep(3.3)\nreturn %d' % k], {}, True
        e = rng.choice(exprs)
        return 'eval', ['return ' + e], {}, True
    if cls == 'evalexc':
        e = rng.choice(['raise ValueError("boom %d")' % k, 'return 1 / 0', 'return undefined_%d' % k,
                        'raise KeyError(%d)' % k, 'return [].pop()', 'raise Exception("obj at 0x7f00dead%d")' % k])
        return 'eval', [e], {}, True
    if cls == 'unknown':
        # (names of attributes the server object happens to have are no methods of the protocol either)
        return rng.choice(['frobnicate', 'get_docstring', 'get_scope', 'Lint', 'assist_%d' % k, '', 'run', 'process', '__init__', '__class__',
                           'project', 'conn', '__repr__', '__setattr__', '__dir__']), rng.choice([[k], [], ['project', None]]), {}, False
    if cls == 'badargs':
        fname, src = rng.choice(corpus)
        return rng.choice([('lint', [], {}, False), ('assist', [src], {}, False), ('lint', [src, fname, False, 'extra'], {}, False),
                           ('assist', [src, [1, 0], fname], {'bogus': k}, False), ('location', [], {'source': src}, False),
                           ('configure', [], {}, False), ('eval', [], {}, False), ('eval', ['return 1', 2], {}, False)])
    if cls == 'unser':
        e = rng.choice(['return object()', 'return {1, 2, %d}' % k, 'return 2**64', 'return lambda: %d' % k, 'return -2**63 - 1',
                        'return [1, {"deep": [object]}]', 'import sys\nreturn sys', 'return 1j', 'return {(1, 2): frozenset()}',
                        # serialisation failing with something that is not a msgpack exception
                        # (a list nested 5000 deep is no longer here: whether it can be serialised depends on the recursion limit of the
                        # server process, which earlier requests on long files legitimately raise)
                        'return "caf\\udce9 %d"' % k,
                        'return {"k": ["\\ud800"]}', 'class S(str):\n    def encode(self, *a):\n        raise RuntimeError("enc %d")\nreturn S("x")' % k,
                        'return range(%d)' % k, 'return Exception("as a value")', 'return memoryview(b"x")'
                        ] + [x % k if '%d' in x else x for x in BASEEXC])
        return 'eval', [e], {}, False
    raise AssertionError(cls)


def main():
    data = json.load(sys.stdin)
    # a private copy of the project: the histories edit project files between requests
    import shutil
    projdir = data['projdir'] + '-w%d' % os.getpid()
    shutil.copytree(data['projdir'], projdir)
    try:
        return main_on(data, projdir)
    finally:
        shutil.rmtree(projdir, ignore_errors=True)


def main_on(data, projdir):
    import supp.remote as remote
    repo = os.path.dirname(os.path.dirname(remote.__file__))
    corpus = [(os.path.join(projdir, 'snip%d.py' % i), s) for i, s in enumerate(SNIPPETS)]
    for rel in ('supp/project.py', 'supp/module.py', 'supp/merged_dict.py', 'supp/evaluator.py'):
        p = os.path.join(repo, rel)
        corpus.append((p, open(p).read()))
    out = []
    edits = [0]
    for job in data['jobs']:
        rng = random.Random(job['seed'])
        env = remote.Environment()
        local = Local()
        records = []
        reqs = []
        pending = None
        try:
            for k, cls in enumerate(job['seq'], 1):
                big = job.get('big', 0) if rng.random() < 0.6 else 0
                name, args, kwargs, has_local = make_request(cls, k, rng, projdir, corpus, big)
                if cls == 'api' and pending is not None:
                    # a project file changes on disk and the SAME request is sent again: the reply follows the disk
                    edits[0] += 1
                    target = os.path.join(projdir, rng.choice(['util.py', 'pkg/mod.py']))
                    with open(target, 'a') as fd:
                        fd.write('edit_%d = %d\n' % (edits[0], edits[0]))
                    st = os.stat(target)
                    os.utime(target, (st.st_atime, st.st_mtime + 5 * edits[0]))
                    name, args, kwargs, has_local = pending
                    pending = None
                elif cls == 'api' and rng.random() < 0.25:
                    # a request whose answer depends on what the project modules define (names edit_<n> appear with the edits)
                    sens = 'from util import *\nfrom star import *\nprint(CONST, %s)\n' % ', '.join('edit_%d' % (edits[0] + i) for i in range(1, 4))
                    fn = os.path.join(projdir, 'sens.py')
                    which = rng.choice(['lint', 'lint', 'assist'])
                    name, args, kwargs, has_local = (('lint', [sens, fn], {}, True) if which == 'lint' else
                                                     ('assist', [sens, [3, len('print(CONST, edit_')], fn], {}, True))
                    pending = (name, args, kwargs, has_local)
                reqs.append([name, digest(args)[:300]])
                # remote
                rem = {'kind': 'ok', 'val': '', 'msg': ''}
                try:
                    # well-formed requests go through the public client method (what an editor plugin calls), the malformed
                    # ones (unknown method, wrong arguments) can only be sent through the transport
                    meth = getattr(env, name, None) if has_local and name in ('lint', 'assist', 'location', 'configure', 'eval') else None
                    signal.signal(signal.SIGALRM, _alarm)
                    signal.alarm(90)
                    try:
                        r = meth(*args, **kwargs) if meth is not None else env._call(name, *args, **kwargs)
                    finally:
                        signal.alarm(0)
                    rem['val'] = digest(norm_reply(name, r))
                except _Timeout:
                    # no reply at all: the server is of no use any more
                    rem = {'kind': 'exc', 'val': '', 'msg': ''}
                    try:
                        env.proc.kill()
                        env.proc.wait()
                    except Exception:  # noqa
                        pass
                except Exception as e:  # noqa
                    rem = {'kind': 'exc', 'val': '', 'msg': mask(str(e))}
                # in-process
                loc = {'kind': 'na', 'val': '', 'msg': ''}
                if has_local:
                    if name != 'configure' and name != 'eval' and local.project is None:
                        loc = {'kind': 'exc', 'val': '', 'msg': 'no project'}
                        # run it anyway on a throw-away project to learn ok/exc? not needed: the clause needs no local value
                    else:
                        try:
                            v = local.call(name, args, kwargs)
                            loc = {'kind': 'ok', 'val': digest(norm_reply(name, v)), 'msg': ''}
                        except Exception as e:  # noqa
                            loc = {'kind': 'exc', 'val': '', 'msg': mask(str(e))}
                alive = env.proc.poll() is None
                # echo: a second, trivially checkable request proves the pairing has not slipped
                echo = True
                if alive:
                    try:
                        echo = env._call('eval', 'return %d' % (k * 7919)) == k * 7919
                    except Exception:
                        echo = False
                    alive = env.proc.poll() is None
                rcls = cls
                if cls in ('api', 'raises'):
                    rcls = 'api'
                if cls == 'unser' and any(args[0].split('(')[0] == b.split('(')[0] for b in BASEEXC):
                    rcls = 'evalbase'
                records.append({'k': k, 'cls': rcls, 'remote': rem, 'local': loc, 'alive': alive, 'echo': echo, 'method': name})
                if not alive:
                    break
        finally:
            try:
                env.close()
            except Exception:
                pass
            try:
                env.proc.wait(10)
            except Exception:
                try:
                    env.proc.kill()
                except Exception:
                    pass
        out.append({'id': job['id'], 'records': records, 'requests': reqs})
    json.dump(out, sys.stdout)


if __name__ == '__main__':
    main()
