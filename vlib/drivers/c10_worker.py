"""Worker for C10: renders decision-table rows into modules, lints them with the real supp; also scans real files for
never-read bindings.  stdin: {"rows": [[id, row, expected]], "files": [[id, path]]}; stdout: list of cases for LintCheck.tla"""
import ast
from vlib import astpos  # noqa
import io
import json
import sys
import tokenize

NAMES = {'x': 'xq', '_x': '_xq', '__x__': '__xq__', 'x_': 'xq_'}


def stmt_for(kind, name):
    """(header params or None, body statement lines) for a binding kind"""
    return {
        'assign': ['%s = 1' % name],
        'annassign': ['%s: int = 1' % name],
        'walrus': ['(%s := 1)' % name],
        'tuple': ['%s, _o2 = 1, 2' % name],
        'starred': ['_h, *%s = [1, 2]' % name],
        'for': ['for %s in ():' % name, '    pass'],
        'with': ['with open(__file__) as %s:' % name, '    pass'],
        'except': ['try:', '    pass', 'except Exception as %s:' % name, '    pass'],
        'comp': ['[0 for %s in ()]' % name],
        'def': ['def %s():' % name, '    pass'],
        'class': ['class %s:' % name, '    pass'],
        'import': ['import %s' % name],
        'fromimport': ['from os import %s' % name],
        'dotted': ['import %s.sub' % name],
        'aliased': ['import os as %s' % name],
        'star': ['from os import *'],
        'dupimport': ['import %s, %s.sub' % (name, name)],
        'fromalias': ['from os import path as %s' % name],
        'fromalias_us': ['from os import _exit as %s' % name],
        'fortuple': ['for _a, %s in ():' % name, '    pass'],
        'withtuple': ['with open(__file__) as (_a, %s):' % name, '    pass'],
        'comptuple': ['[0 for _a, %s in ()]' % name],
        'nestedtuple': ['(_a, (%s, _b)) = 1, (2, 3)' % name],
        'aliasclash': ['from os import path as %s, %s' % (name, name)],
        'future': ['from __future__ import annotations'],
        'globaldecl': ['global %s' % name, '%s = 1' % name],
        'nonlocaldecl': ['nonlocal %s' % name, '%s = 1' % name],
        'nonlocalread': ['nonlocal %s' % name, '%s = 1' % name],
        'compnested': ['[[0 for %s in ()] for _r in ()]' % name],
        'fromalias_ml': ['from os import (path', '    as %s, sep as _s)' % name],
        'futuremodule': ['import __future__ as %s' % name],
    }[kind]


def params_for(kind, name, method):
    first = 'self, ' if method else ''
    return {'param': first + name, 'kwonly': first + '*, %s=1' % name, 'vararg': first + '*' + name,
            'kwarg': first + '**' + name, 'posonly': (first + name + ', /')}[kind]


PARAMS = ('param', 'kwonly', 'vararg', 'kwarg', 'posonly')


def render_row(row):
    kind, scope, name = row['kind'], row['scope'], NAMES[row['shape']]
    if kind == 'star':
        name = 'sep'
    if kind == 'future':
        name = 'annotations'
    lines = []

    def ind(ls, n):
        return ['    ' * n + l for l in ls]
    if kind in PARAMS:
        if scope == 'function':
            lines = ['def f(%s):' % params_for(kind, name, False), '    return 0']
        elif scope == 'method':
            lines = ['class K:', '    def m(%s):' % params_for(kind, name, True), '        return self']
        elif scope == 'nested':
            lines = ['def outer():', '    def inner(%s):' % params_for(kind, name, False), '        return 0', '    return inner']
        elif scope == 'inmethod':
            lines = ['class K:', '    def m(self):', '        def inner(%s):' % params_for(kind, name, False), '            return 0', '        return inner']
        elif scope == 'lambdainmethod':
            lines = ['class K:', '    def m(self):', '        return lambda %s: self' % params_for(kind, name, False)]
        else:
            p = params_for(kind, name, False).replace(', /', ', /')
            lines = ['f = lambda %s: 0' % p]
    elif scope in ('lambda', 'lambdainmethod'):
        body = {'walrus': '(%s := 1)' % name, 'comp': '[0 for %s in ()]' % name, 'compnested': '[[0 for %s in ()] for _r in ()]' % name}[kind]
        lines = ['f = lambda: %s' % body] if scope == 'lambda' else ['class K:', '    def m(self):', '        return lambda: (self, %s)' % body]
    else:
        st = stmt_for(kind, name)
        if scope == 'module':
            lines = st
        elif scope == 'class':
            lines = ['class K:'] + ind(st, 1)
        elif scope == 'classinfunction':
            lines = ['def outer():', '    class K:'] + ind(st, 2) + ['    return K']
        elif scope == 'function':
            lines = ['def f():'] + ind(st, 1) + ['    return 0']
        elif scope == 'method':
            lines = ['class K:', '    def m(self):'] + ind(st, 2) + ['        return self']
        elif scope == 'nested':
            pre = ['    %s = 0' % name] if kind in ('nonlocaldecl', 'nonlocalread') else []
            ret = ['    inner()', '    return %s' % name] if kind == 'nonlocalread' else ['    return inner']
            lines = ['def outer():'] + pre + ['    def inner():'] + ind(st, 2) + ['        return 0'] + ret
        elif scope == 'inmethod':
            pre = ['        %s = 0' % name] if kind in ('nonlocaldecl', 'nonlocalread') else []
            ret = ['        inner()', '        return %s' % name] if kind == 'nonlocalread' else ['        return inner']
            lines = ['class K:', '    def m(self):'] + pre + ['        def inner():'] + ind(st, 3) + ['            return 0'] + ret
    return '\n'.join(lines) + '\n', name


def own_position(source, name, kind):
    toks = list(tokenize.generate_tokens(io.StringIO(source).readline))
    if kind in ('dupimport', 'aliasclash'):
        return [list(t.start) for t in toks if t.type == tokenize.NAME and t.string == name][:2]
    if kind == 'nonlocaldecl':
        # both assignments (in the outer and in the nested function) bind the outer function's local; not the declaration
        return [list(t.start) for i, t in enumerate(toks) if t.type == tokenize.NAME and t.string == name and toks[i - 1].string != 'nonlocal']
    return [own_position1(toks, name, kind)]


def own_position1(toks, name, kind):
    if kind == 'except':
        for t in toks:
            if t.type == tokenize.NAME and t.string == 'except':
                return list(t.start)
    last = None
    for t in toks:
        if t.type == tokenize.NAME and t.string == name:
            if kind == 'globaldecl':
                last = list(t.start)
                continue
            return list(t.start)
    return last or [0, 0]


def reports_of(source, filename):
    from supp.project import Project
    from supp.linter import lint
    out = []
    for d in lint(Project(['/nonexistent-verif-root']), source, filename):
        if d[0] in ('W01', 'W02'):
            out.append({'code': d[0], 'name': d[1].split(': ', 1)[1], 'line': d[2], 'col': d[3]})
    return out


# ---------------------------------------------------------------------------
# real files

class Scan(ast.NodeVisitor):
    """binding occurrences with (identifier, kind class, scope kind, position)"""

    def __init__(self, source):
        self.toks = [t for t in tokenize.generate_tokens(io.StringIO(source).readline) if t.type == tokenize.NAME]
        self.by_start = {t.start: i for i, t in enumerate(self.toks)}
        self.stack = ['module']
        self.bind = []         # (name, kind, scope, pos, declared, scope identity)
        self.dynamic = set()   # scopes that call locals()
        self.loads = set()
        self.excluded = set()
        self.decl = [set()]
        self.sids = [0]
        self.nsid = 0

    def scope(self):
        return self.stack[-1]

    def add(self, name, kind, pos):
        self.bind.append((name, kind, self.scope(), tuple(pos), name in self.decl[-1], self.sids[-1]))

    def visit_Name(self, n):
        if isinstance(n.ctx, ast.Load):
            self.loads.add(n.id)
            if n.id == 'locals':
                # locals() reads every local of the scope it is called in (supp counts them all as read): such scopes
                # have no never-read local to judge
                self.dynamic.add(self.sids[-1])
        elif isinstance(n.ctx, ast.Store):
            self.add(n.id, 'assign', (n.lineno, n.col_offset))
        else:
            self.excluded.add(n.id)

    def visit_AugAssign(self, n):
        for x in ast.walk(n.target):
            if isinstance(x, ast.Name):
                self.excluded.add(x.id)
        self.visit(n.value)

    def visit_AnnAssign(self, n):
        if n.value is None:
            if isinstance(n.target, ast.Name):
                self.excluded.add(n.target.id)
            self.visit(n.annotation)
            return
        self.generic_visit(n)

    def visit_Global(self, n):
        self.decl[-1].update(n.names)
        self.excluded.update(n.names)

    visit_Nonlocal = visit_Global

    def name_pos(self, n):
        i = self.by_start.get((n.lineno, n.col_offset))
        if i is None:
            return None
        j = i
        while j < len(self.toks) and self.toks[j].string not in ('def', 'class'):
            j += 1
        return self.toks[j + 1].start if j + 1 < len(self.toks) else None

    def func(self, n, is_lambda=False):
        parent = self.scope()
        if not is_lambda:
            for d in n.decorator_list:
                self.visit(d)
            pos = self.name_pos(n)
            if pos:
                self.add(n.name, 'def', pos)
            if n.returns:
                self.visit(n.returns)
        a = n.args
        for d in a.defaults + [d for d in a.kw_defaults if d]:
            self.visit(d)
        kind = 'lambda-in-class' if (is_lambda and parent == 'class') else ('method' if parent == 'class' else 'function')
        self.stack.append(kind)
        self.decl.append(set())
        self.nsid += 1
        self.sids.append(self.nsid)
        for arg in getattr(a, 'posonlyargs', []) + a.args + a.kwonlyargs + [x for x in (a.vararg, a.kwarg) if x]:
            if arg.annotation is not None and not is_lambda:
                self.stack.append(parent)
                self.visit(arg.annotation)
                self.stack.pop()
            self.add(arg.arg, 'param', (arg.lineno, arg.col_offset))
        if is_lambda:
            self.visit(n.body)
        else:
            for s in n.body:
                self.visit(s)
        self.stack.pop()
        self.decl.pop()
        self.sids.pop()

    def visit_FunctionDef(self, n):
        self.func(n)

    visit_AsyncFunctionDef = visit_FunctionDef

    def visit_Lambda(self, n):
        self.func(n, True)

    def visit_ClassDef(self, n):
        for d in n.decorator_list + n.bases + [k.value for k in n.keywords]:
            self.visit(d)
        pos = self.name_pos(n)
        if pos:
            self.add(n.name, 'class', pos)
        self.stack.append('class')
        self.decl.append(set())
        self.nsid += 1
        self.sids.append(self.nsid)
        for s in n.body:
            self.visit(s)
        self.stack.pop()
        self.decl.pop()
        self.sids.pop()

    def visit_ExceptHandler(self, n):
        if n.name:
            self.add(n.name, 'except', (n.lineno, n.col_offset))
        self.generic_visit(n)

    def alias_pos(self, a, want, asname):
        cand = [t for t in self.toks if (a.lineno, a.col_offset) <= t.start and t.end <= (a.end_lineno, a.end_col_offset)]
        for t in (reversed(cand) if asname else cand):
            if t.string == want:
                return t.start
        return None

    def visit_Import(self, n):
        for a in n.names:
            name = a.asname or a.name.split('.')[0]
            pos = self.alias_pos(a, name, bool(a.asname))
            if pos:
                self.add(name, 'import', pos)

    def visit_ImportFrom(self, n):
        for a in n.names:
            if a.name == '*':
                continue
            name = a.asname or a.name
            pos = self.alias_pos(a, name, bool(a.asname))
            if pos:
                self.add(name, 'future' if n.module == '__future__' else 'import', pos)

    def comp(self, n):
        # comprehension variables live in the comprehension's own scope: never reported at module / class level, and
        # reported like locals inside functions (supp keeps them with the enclosing function)
        for g in n.generators:
            for x in ast.walk(g.target):
                if isinstance(x, ast.Name):
                    self.add(x.id, 'comp', (x.lineno, x.col_offset))
            self.visit(g.iter)
            for c in g.ifs:
                self.visit(c)
        for f in ('elt', 'key', 'value'):
            if hasattr(n, f):
                self.visit(getattr(n, f))

    visit_ListComp = visit_SetComp = visit_DictComp = visit_GeneratorExp = comp


def expected_for(name, kind, scope, declared):
    if name.startswith('_') or declared:
        return 'none'
    if scope in ('function', 'method'):
        if kind == 'param' and scope == 'method':
            return 'none'
        return 'W01'
    if scope == 'lambda-in-class':
        return None      # ambiguous row: not judged
    if kind == 'import':
        return 'W02'
    return 'none'


def scan_file(path):
    src = open(path, encoding='utf-8').read()
    tree = astpos.parse(src)
    for n in ast.walk(tree):
        if type(n).__name__ in ('TryStar', 'Match', 'TypeAlias') or getattr(n, 'type_params', None):
            raise ValueError('syntax outside the modelled domain (%s)' % type(n).__name__)
    sc = Scan(src)
    sc.visit(tree)
    # strings in __all__ count as uses
    for n in ast.walk(tree):
        if isinstance(n, ast.Assign) and any(isinstance(t, ast.Name) and t.id == '__all__' for t in n.targets):
            for c in ast.walk(n.value):
                if isinstance(c, ast.Constant) and isinstance(c.value, str):
                    sc.loads.add(c.value)
    never = {}
    for name, kind, scope, pos, declared, sid in sc.bind:
        if name in sc.loads or name in sc.excluded or sid in sc.dynamic:
            continue
        never.setdefault(name, []).append((kind, scope, pos, declared))
    return src, never


def main():
    data = json.load(sys.stdin)
    out = []
    for cid, row, expected in data.get('rows', []):
        src, name = render_row(row)
        try:
            compile(src, '<row>', 'exec')
        except SyntaxError as e:
            out.append({'id': cid, 'skip': 'syntax: %s' % e, 'source': src})
            continue
        reps = reports_of(src, '/nonexistent-verif-root/row.py')
        out.append({'id': cid, 'expected': expected, 'name': name, 'pos': own_position(src, name, row['kind']),
                    'reports': reps, 'others': ['sep'] if False else [], 'source': src, 'row': row})
    for cid, path in data.get('files', []):
        try:
            src, never = scan_file(path)
            reps = reports_of(src, path)
        except Exception as e:  # unparsable / undecodable / lint raising (C08)
            out.append({'id': cid, 'skip': '%s: %s' % (type(e).__name__, e), 'file': path})
            continue
        names = sorted(never)
        k = 0
        for name in names:
            occ = never[name]
            exps = [expected_for(name, kd, sc_, dec) for kd, sc_, pos, dec in occ]
            if None in exps or len(occ) != 1:
                # several bindings of one never-read identifier: judged together below (set comparison by the driver)
                continue
            kd, sc_, pos, dec = occ[0]
            out.append({'id': cid * 100000 + k, 'expected': exps[0], 'name': name, 'pos': list(pos),
                        'reports': [r for r in reps if r['name'] == name], 'others': [], 'file': path, 'row': {'kind': kd, 'scope': sc_}})
            out[-1]['pos'] = [out[-1]['pos']]
            k += 1
    json.dump(out, sys.stdout)


if __name__ == '__main__':
    main()
