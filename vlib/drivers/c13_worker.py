"""Worker for C13: analyses every rendering of a program with the real supp and returns layout-invariant summaries.
stdin: {"jobs": [{id, source, filename, vectors: [vec...], seeds: [...], unparse: bool}]}
stdout: [{id, base: summary, layouts: [summary...], used: [vec...], discarded: n}]"""
import ast
from vlib import astpos  # noqa
import io
import json
import sys
import tokenize

from vlib.gen import layout


def binding_table(source, tree):
    """(line, col) -> ordinal of the binding occurrence, in ast.walk order (identical for identical ASTs)"""
    toks = [t for t in tokenize.generate_tokens(io.StringIO(source).readline) if t.type == tokenize.NAME]
    by_start = {t.start: i for i, t in enumerate(toks)}
    table = {}
    k = 0
    for n in ast.walk(tree):
        pos = None
        if isinstance(n, ast.Name) and isinstance(n.ctx, ast.Store):
            pos = (n.lineno, n.col_offset)
        elif isinstance(n, ast.arg):
            pos = (n.lineno, n.col_offset)
        elif isinstance(n, ast.ExceptHandler) and n.name:
            pos = (n.lineno, n.col_offset)
        elif isinstance(n, (ast.FunctionDef, ast.AsyncFunctionDef, ast.ClassDef)):
            i = by_start.get((n.lineno, n.col_offset))
            if i is not None:
                j = i
                while j < len(toks) and toks[j].string not in ('def', 'class'):
                    j += 1
                if j + 1 < len(toks):
                    pos = toks[j + 1].start
        elif isinstance(n, ast.alias):
            # the bound identifier: asname, or the first component of a dotted name
            cand = [t for t in toks if (n.lineno, n.col_offset) <= t.start and t.end <= (n.end_lineno, n.end_col_offset)]
            want = n.asname or n.name.split('.')[0]
            for t in (reversed(cand) if n.asname else cand):
                if t.string == want:
                    pos = t.start
                    break
        else:
            continue
        if pos is not None:
            table.setdefault(pos, k)
        k += 1
    return table


def summarise(source, filename):
    from supp.project import Project
    from supp.linter import lint
    from supp.nast import extract_scope
    from supp.util import Source, get_name_usages, np
    from supp.name import MultiName, UndefinedName, RuntimeName
    from supp import assistant
    project = Project(['/nonexistent-verif-root'])
    tree = astpos.parse(source)
    loads = [n for n in ast.walk(tree) if isinstance(n, ast.Name) and isinstance(n.ctx, ast.Load)]
    read_ord = {(n.lineno, n.col_offset): i for i, n in enumerate(loads)}
    btab = binding_table(source, tree)
    diags = lint(project, source, filename)
    dsum = []
    for d in diags:
        pos = (d[2], d[3])
        tgt = read_ord.get(pos, -1) if d[0] in ('E02', 'E42') else btab.get(pos, -1)
        dsum.append([d[0], d[1], tgt])
    src = Source(source, filename)
    extract_scope(src, project)
    nodes = {np(n): n for n in get_name_usages(src.tree)}
    reads = []
    for read_i, n in enumerate(loads):
        sn_node = nodes.get((n.lineno, n.col_offset))
        fl = getattr(sn_node, 'flow', None)
        if fl is None:
            reads.append('E42')
            continue
        names = fl.names_at((n.lineno, n.col_offset))
        vis = sorted(k for k, v in names.items() if not isinstance(v, RuntimeName))
        sn = names.get(n.id)
        alts, undef = None, False
        if sn is not None:
            al = sn.alt_names if isinstance(sn, MultiName) else [sn]
            undef = any(type(a) is UndefinedName for a in al)
            alts = sorted((-1 if isinstance(a, RuntimeName) else btab.get(tuple(getattr(a, 'declared_at', (0, 0))), -2))
                          for a in al if type(a) is not UndefinedName)
        av = None
        if len(loads) <= 6 or read_i % max(1, len(loads) // 6) == 0:
            # what completion offers with the cursor immediately before the identifier (a sample of the reads): the public answer to
            # "which names are visible here", which also depends on how the cursor line is read
            try:
                av = sorted(assistant.assist(project, source, (n.lineno, n.col_offset), filename)[1])
            except SyntaxError:
                av = 'SyntaxError'
        reads.append(json.dumps([n.id, vis, alts, undef, av]))
    return {'diag': json.dumps(dsum), 'reads': reads}


def main():
    data = json.load(sys.stdin)
    out = []
    for job in data['jobs']:
        src, fn = job['source'], job['filename']
        try:
            base = summarise(src, fn)
        except Exception as e:  # totality is C08's business; a file supp cannot analyse is skipped here
            out.append({'id': job['id'], 'skipped': '%s: %s' % (type(e).__name__, e)})
            continue
        lays, used, disc = [], [], 0
        texts = []
        for vec, sd in zip(job['vectors'], job['seeds']):
            v = dict(vec)
            if v['indent'] != 'tab':
                v['indent'] = int(v['indent'])
            try:
                new = layout.relayout(src, v, sd)
            except Exception:
                disc += 1
                continue
            if not layout.same_ast(src, new):
                disc += 1
                continue
            try:
                lays.append(summarise(new, fn))
            except Exception as e:  # noqa
                lays.append({'diag': 'EXC %s: %s' % (type(e).__name__, e), 'reads': []})
            used.append(vec)
            texts.append(new)
        if job.get('unparse'):
            try:
                new = ast.unparse(ast.parse(src)) + '\n'
                if layout.same_ast(src, new):
                    lays.append(summarise(new, fn))
                    used.append({'unparse': 1})
                    texts.append(new)
            except Exception:
                pass
        out.append({'id': job['id'], 'base': base, 'layouts': lays, 'used': used, 'discarded': disc,
                    'texts': texts if job.get('keep_texts') else []})
    json.dump(out, sys.stdout)


if __name__ == '__main__':
    main()
