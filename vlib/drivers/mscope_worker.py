"""Worker for the multi-scope part of C01: generates programs (vlib/gen/mscope.py), enumerates their CPython executions,
records what the real supp says about every read, emits case records for spec/PyScopeEnum.tla and spec/PyScopeCheck.tla.
stdin: {"seed", "n", "base", "exec_limit"} or {"sources": [...]} is not supported (programs are regenerated from their seed);
stdout: JSON list of cases."""
import json
import random
import sys

from vlib.gen import mscope


def supp_observe(source, R):
    from supp.project import Project
    from supp.linter import lint
    from supp.nast import extract_scope
    from supp.util import Source, get_name_usages, np
    from supp import assistant
    import os
    import shutil
    import tempfile
    root = '/nonexistent-verif-root'
    tmp = None
    if R.star_files:
        # star-imported modules must exist for supp: a project directory of their own
        tmp = root = tempfile.mkdtemp(prefix='mscope-')
        for i, (mod, text) in enumerate(sorted(R.star_files.items())):
            # project files as editors save them: plain UTF-8, UTF-8 with a byte-order mark, another encoding with a coding cookie
            variant = (len(source) + i) % 3
            data = text.encode('utf-8')
            if variant == 1:
                data = b'\xef\xbb\xbf' + data
            elif variant == 2:
                data = ('# -*- coding: latin-1 -*-\n# caf\xe9\n' + text).encode('latin-1')
            with open(os.path.join(root, mod + '.py'), 'wb') as fd:
                fd.write(data)
    try:
        return _observe(source, R, root)
    finally:
        if tmp:
            shutil.rmtree(tmp, ignore_errors=True)


def _observe(source, R, root):
    import os
    from supp.project import Project
    from supp.linter import lint
    from supp.nast import extract_scope
    from supp.util import Source, get_name_usages, np
    from supp import assistant
    project = Project([root])
    fname = os.path.join(root, 'mscope.py')
    diags = lint(project, source, fname)
    e02 = {(d[2], d[3]) for d in diags if d[0] == 'E02'}
    e42 = {(d[2], d[3]) for d in diags if d[0] == 'E42'}
    src = Source(source, fname)
    extract_scope(src, project)
    by_pos = {np(n): n for n in get_name_usages(src.tree)}
    from supp.name import MultiName, UndefinedName, RuntimeName
    site_by_pos = {(v[0], v[1], R.site_name[k]): k for k, v in R.site_pos.items()}
    unused = set()
    for d in diags:
        if d[0] in ('W01', 'W02'):
            k = (d[2], d[3], d[1].split(': ', 1)[1])
            if k in site_by_pos:
                unused.add(site_by_pos[k])
    unused = sorted(unused)
    rd = []
    for rid in sorted(R.read_pos):
        ln, col, nm = R.read_pos[rid]
        node = by_pos.get((ln, col))
        o = {'id': rid, 'vis': False, 'e02': (ln, col) in e02, 'e42': (ln, col) in e42, 'assist': False, 'alts': [], 'undef': False}
        flow = getattr(node, 'flow', None)
        if flow is not None:
            sn = flow.names_at((ln, col)).get(nm)
            o['vis'] = sn is not None
            if sn is not None:
                for a in (sn.alt_names if isinstance(sn, MultiName) else [sn]):
                    if type(a) is UndefinedName:
                        o['undef'] = True
                    elif isinstance(a, RuntimeName):
                        o['alts'].append(-1)
                    else:
                        da = getattr(a, 'declared_at', None)
                        o['alts'].append(site_by_pos.get((da[0], da[1], nm), -2) if da else -2)
        try:
            pfx, props = assistant.assist(project, source, (ln, col + len(nm)), fname)
            o['assist'] = nm in props
        except Exception as e:  # noqa
            o['assist_exc'] = type(e).__name__
        rd.append(o)
    return rd, [list(map(str, d[:4])) for d in diags if d[0] == 'E01'], unused


def make_case(cid, seed, exec_limit):
    rng = random.Random(seed)
    g = mscope.generate(rng)
    if g is None:
        return None
    body, R, nodes, scopes = g
    ex = mscope.enumerate_cpython(R, limit=exec_limit)
    if ex is None:
        return None
    rd, e01, unused = supp_observe(R.source, R)
    return {'id': cid, 'gseed': seed, 'nodes': nodes, 'scopes': scopes, 'builtins': mscope.BUILTINS, 'source': R.source,
            'read_pos': {str(k): list(v) for k, v in R.read_pos.items()}, 'cpython': ex, 'rd': rd, 'e01': e01, 'unused': unused,
            'site_pos': {str(k): list(v) for k, v in R.site_pos.items()}}


def main():
    data = json.load(sys.stdin)
    out = []
    if 'gseeds' in data:
        for i, s in enumerate(data['gseeds']):
            c = make_case(data.get('base', 0) + i, s, data.get('exec_limit', 400))
            if c:
                out.append(c)
    else:
        rng = random.Random(data['seed'])
        for i in range(data['n']):
            c = make_case(data['base'] + i, rng.randrange(1 << 40), data.get('exec_limit', 400))
            if c:
                out.append(c)
    json.dump(out, sys.stdout)


if __name__ == '__main__':
    main()
