"""Worker for C01-C03/C17 (one-body programs): generates programs, enumerates their CPython executions
(decision DFS), records what the real supp says about every read, and emits the case records for
spec/PyBindCheck.tla and spec/PyBindEnum.tla.
stdin: {"seed", "n", "base", "mix": {...}}; stdout: JSON list of cases."""
import json
import random
import sys

from vlib.gen import prog

BUILTINS = ['len', 'print']
GLOBALS = ['g1', 'g2']


def supp_observe(source, R, nbody, pre_sites):
    from supp.project import Project
    from supp.linter import lint
    from supp.nast import extract_scope
    from supp.util import Source, get_name_usages, np
    from supp import assistant
    from supp.name import MultiName, UndefinedName, RuntimeName
    project = Project(['/nonexistent-verif-root'])
    fname = '/nonexistent-verif-root/vprog.py'
    bpos = prog.binding_positions(source, len(pre_sites), nbody)
    for s_, (ln_, col_, nm_) in bpos.items():
        assert R.site_pos[s_] == (ln_, nm_), (s_, R.site_pos[s_], ln_, nm_)
    site_by_pos = {(ln_, col_): s_ for s_, (ln_, col_, nm_) in bpos.items()}
    by_line_name = {}
    for s_, (ln_, col_, nm_) in bpos.items():
        by_line_name.setdefault((ln_, nm_), []).append(s_)

    class _M(object):
        def get(self, key):
            """site of a binding reported at line key[0] for name key[1] (unique per line or None)"""
            c = by_line_name.get(key, [])
            return c[0] if len(c) == 1 else None
    site_by_line_name = _M()
    diags = lint(project, source, fname)
    e02 = {(d[2], d[3]) for d in diags if d[0] == 'E02'}
    e42 = {(d[2], d[3]) for d in diags if d[0] == 'E42'}
    e01 = [d for d in diags if d[0] == 'E01']
    unused = set()
    unused_unmapped = []
    for d in diags:
        if d[0] in ('W01', 'W02'):
            nm = d[1].split(': ', 1)[1]
            s = site_by_pos.get((d[2], d[3]))
            if s is None:
                s = site_by_line_name.get((d[2], nm))
            if s is not None:
                unused.add(s)
            elif not nm.startswith('_v'):
                unused_unmapped.append(list(d[:4]))
    src = Source(source, fname)
    scope = extract_scope(src, project)
    by_pos = {np(n): n for n in get_name_usages(src.tree)}
    rd = []
    for rid in sorted(R.read_pos):
        ln, col, nm = R.read_pos[rid]
        node = by_pos.get((ln, col))
        o = {'id': rid, 'vis': False, 'e02': (ln, col) in e02, 'e42': (ln, col) in e42, 'assist': False, 'undef': False,
             'alts': [], 'loc': [], 'locok': False, 'nolocal': False}
        flow = getattr(node, 'flow', None)
        if flow is not None:
            names = flow.names_at((ln, col))
            sn = names.get(nm)
            if sn is not None:
                o['vis'] = True
                alt = sn.alt_names if isinstance(sn, MultiName) else [sn]
                for a in alt:
                    if type(a) is UndefinedName:
                        o['undef'] = True
                    elif isinstance(a, RuntimeName):
                        o['alts'].append(-1)
                    else:
                        da = getattr(a, 'declared_at', None)
                        s = (site_by_pos.get(tuple(da)) or site_by_line_name.get((da[0], nm))) if da else None
                        o['alts'].append(s if s is not None else -2)
        try:
            pfx, props = assistant.assist(project, source, (ln, col + len(nm)), fname)
            o['assist'] = nm in props
        except Exception as e:  # noqa
            o['assist_exc'] = type(e).__name__
        try:
            locs = assistant.location(project, source, (ln, col + 1 if len(nm) > 1 else col + len(nm)), fname)
            o['locok'] = True
            flat = []
            for l in locs:
                flat += l if isinstance(l, list) else [l]
            for l in flat:
                s = site_by_pos.get(tuple(l['loc'])) or site_by_line_name.get((l['loc'][0], nm))
                if s is not None:
                    o['loc'].append(s)
        except Exception as e:  # noqa
            o['loc_exc'] = type(e).__name__
        rd.append(o)
    return rd, sorted(unused), e01, unused_unmapped


def make_case(cid, rng, mix):
    flavour = rng.choices(['func', 'module', 'class'], weights=mix.get('flavours', [5, 3, 2]))[0]
    c03 = rng.random() < mix.get('c03', 0.5)
    g = prog.Gen(rng, flavour=flavour, c03=c03, depth=rng.choice([2, 3, 3]), globals_=GLOBALS, builtins_=BUILTINS,
                 names=rng.choice([prog.NAMES, prog.NAMES, ['a', 'b'], ['a', 'b', 'c', 'd', 'e'], ['a', 'b', 'c', 'd', 'e', 'f']]))
    g.prologue = mix.get('prologue', rng.choice([0.55, 0.3, 0.15]))
    g.single = rng.random() < mix.get('single', 0.5)
    g.multi = rng.random() < mix.get('multi', 0.35)
    g.blockfirst = rng.random() < mix.get('blockfirst', 0.25)
    g.loops = rng.random() < mix.get('loops', 0.3)
    g.withs = rng.random() < mix.get('withs', 0.2)
    if rng.random() < 0.12:
        # a program that consists of the injected shapes only: few executions, so the exhaustive exploration always fits the budget
        g.tiny = True
        g.single = False
        g.loops = rng.random() < 0.6
        g.withs = rng.random() < 0.5
        g.multi = True
    body, nsites, nreads = prog.number(g.program())
    locals_ = sorted(prog.bound_names(body))
    pre = []
    env0 = {'_': 0}
    if flavour in ('func', 'class'):
        for i, nm in enumerate(GLOBALS):
            if rng.random() < 0.7:
                pre.append((nm, nsites + 1 + len(pre)))
        # a module-level binding of a body name: shadowed in a function, the fallback in a class body
        if rng.random() < 0.3:
            pre.append((rng.choice(prog.NAMES), nsites + 1 + len(pre)))
    for nm, s in pre:
        env0[nm] = s
    for b in BUILTINS:
        env0.setdefault(b, -1)
    R = prog.render(body, flavour, pre=pre)
    nodes = prog.reduce_nodes(body)
    handler_sites = sorted(n['s'] for n in nodes if n['k'] == 'handler' and n['s'])
    case = {'id': cid, 'nodes': nodes, 'flavour': flavour, 'env0': env0, 'locals': locals_, 'nbody': nsites,
            'pre': [list(x) for x in pre], 'c01': True, 'c02': bool(g.c02), 'c03': bool(g.c03), 'c17': False,
            'source': R.source, 'handler_sites': handler_sites,
            'site_pos': {str(k): list(v) for k, v in R.site_pos.items()},
            'read_pos': {str(k): list(v) for k, v in R.read_pos.items()}}
    return case, R


def main():
    data = json.load(sys.stdin)
    rng = random.Random(data['seed'])
    out = []
    for i in range(data['n']):
        cid = data['base'] + i
        case, R = make_case(cid, rng, data.get('mix', {}))
        ex = prog.enumerate_cpython(R.source, case['flavour'], limit=data.get('exec_limit', 1500))
        if ex is None:
            continue
        case['cpython'] = [[list(d), [[a, (list(b) if isinstance(b, tuple) else b)] for a, b in o], oc] for d, o, oc in ex]
        rd, unused, e01, unmapped = supp_observe(R.source, R, case['nbody'], case['pre'])
        case['rd'] = rd
        case['unused'] = unused
        case['e01'] = [list(map(str, d[:4])) for d in e01]
        case['unused_unmapped'] = unmapped
        out.append(case)
    json.dump(out, sys.stdout)


if __name__ == '__main__':
    main()
