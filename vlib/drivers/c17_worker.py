"""Worker for C17: answers a list of requests in THIS process (fresh interpreter, given PYTHONHASHSEED, given amount of prior
allocation), each twice, and prints canonical texts.  stdin: {"requests": [...], "prealloc": n, "sources": [dirs]}.
request: {id, kind: lint|location|assist|alts|discover, source, filename, pos}"""
import json
import sys


def canon(x):
    return json.dumps(x, sort_keys=True, default=str)


def main():
    data = json.load(sys.stdin)
    junk = [object() for _ in range(data.get('prealloc', 0))]
    junk2 = {str(i): [i] for i in range(data.get('prealloc', 0) // 7)}
    for m in data.get('preimport') or []:
        __import__(m)
    from supp.project import Project
    from supp import assistant, linter
    from supp.nast import extract_scope
    from supp.util import Source, get_name_usages, np
    from supp.name import MultiName, UndefinedName
    out = {}
    for rep in (0, 1):
        project = Project(data.get('sources') or ['/nonexistent-verif-root'])
        for r in data['requests']:
            rid = '%s/%d' % (r['id'], rep)
            try:
                with project.check_changes():
                    if r['kind'] == 'lint':
                        v = [list(d[:4]) for d in linter.lint(project, r['source'], r['filename'])]
                    elif r['kind'] == 'location':
                        v = assistant.location(project, r['source'], tuple(r['pos']), r['filename'])
                    elif r['kind'] == 'assist':
                        v = assistant.assist(project, r['source'], tuple(r['pos']), r['filename'])
                    elif r['kind'] == 'alts':
                        # the alternatives supp associates with every read, in the order it keeps them
                        src = Source(r['source'], r['filename'])
                        extract_scope(src, project)
                        v = []
                        for n in get_name_usages(src.tree):
                            fl = getattr(n, 'flow', None)
                            if fl is None:
                                continue
                            sn = fl.names_at(np(n)).get(n.id)
                            if isinstance(sn, MultiName):
                                v.append([list(np(n)), [('undef' if type(a) is UndefinedName else list(getattr(a, 'declared_at', (0, 0)))) for a in sn.alt_names]])
                    elif r['kind'] == 'discover':
                        src = Source(r['source'], r['filename'])
                        extract_scope(src, project)
                        v = []
                        for n in get_name_usages(src.tree):
                            fl = getattr(n, 'flow', None)
                            if fl is None:
                                continue
                            sn = fl.names_at(np(n)).get(n.id)
                            if isinstance(sn, MultiName) and len(sn.valid_names) >= 2:
                                v.append([n.lineno, n.col_offset, n.id, len(sn.valid_names)])
                out[rid] = ['ok', v]
            except Exception as e:  # noqa
                out[rid] = ['exc', type(e).__name__, str(e)[:200]]
    del junk, junk2
    json.dump(out, sys.stdout, default=str)


if __name__ == '__main__':
    main()
