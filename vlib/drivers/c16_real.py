"""Real-subprocess scenarios for C16 (no fakes): close, reuse after close, client
disconnect, client death, launch failure, concurrent first calls.  Emits the
event vocabulary of spec/Session.tla.  stdout: JSON list of cases."""
import json
import os
import subprocess
import sys
import threading
import time

EXIT_TIMEOUT = 15.0


class Recorder(object):
    def __init__(self):
        self.events = []
        self.lock = threading.Lock()
        self.procs = {}

    def ev(self, e, t='', k=0, res='', cls='', sid=0, info=''):
        with self.lock:
            self.events.append({'e': e, 't': t, 'k': k, 'res': res, 'cls': cls, 'sid': sid, 'info': info})


def install(rec):
    import multiprocessing.connection as mc
    real_popen = subprocess.Popen
    real_client = mc.Client
    tl = threading.local()

    class RecPopen(real_popen):
        def __init__(self, args, *a, **kw):
            real_popen.__init__(self, args, *a, **kw)
            if isinstance(args, (list, tuple)) and len(args) >= 2 and str(args[1]).endswith('server.py'):
                rec.procs[self.pid] = self
                tl.last = self.pid
                rec.ev('Launch', threading.current_thread().name, 0, '', '', self.pid)

    def client(addr, *a, **kw):
        try:
            c = real_client(addr, *a, **kw)
        except Exception:
            tl.failed = getattr(tl, 'failed', 0) + 1
            raise
        rec.ev('Connect', threading.current_thread().name, 0, 'ok', '', getattr(tl, 'last', 0))
        return c
    subprocess.Popen = RecPopen
    mc.Client = client
    return tl


def reap(rec, only=None):
    """Wait for recorded server processes to exit; log ServerExit for those that do."""
    for pid, p in list(rec.procs.items()):
        if only is not None and pid not in only:
            continue
        try:
            p.wait(EXIT_TIMEOUT)
        except subprocess.TimeoutExpired:
            continue
        rec.ev('ServerExit', '', 0, 'exit', '', pid)
        del rec.procs[pid]


def kill_all(rec):
    for pid, p in list(rec.procs.items()):
        try:
            p.kill()
            p.wait(5)
        except Exception:
            pass


def op(rec, t, k, kind, f):
    rec.ev(kind + 'Begin', t, k)
    try:
        r = f()
    except BaseException as e:  # noqa
        rec.ev(kind + 'End', t, k, 'exc', type(e).__name__, 0, str(e)[:200])
        return None
    rec.ev(kind + 'End', t, k, 'ok')
    return r


def scenario_close_reuse(remote):
    rec = Recorder()
    install(rec)
    env = remote.Environment()
    t = 'MainThread'
    op(rec, t, 1, 'Call', lambda: env.eval('return 1 + 1'))
    first = set(rec.procs)
    rec.ev('CloseBegin', t, 2)
    try:
        env.close()
        rec.ev('CloseSent', t, 0, '', '', list(first)[0] if first else 0)
        rec.ev('CloseEnd', t, 2, 'ok')
    except BaseException as e:  # noqa
        rec.ev('CloseEnd', t, 2, 'exc', type(e).__name__, 0, str(e)[:200])
    reap(rec, first)
    r = op(rec, t, 3, 'Call', lambda: env.eval('return 40 + 2'))
    second = set(rec.procs)
    rec.ev('CloseBegin', t, 4)
    try:
        env.close()
        rec.ev('CloseSent', t, 0, '', '', list(second)[0] if second else 0)
        rec.ev('CloseEnd', t, 4, 'ok')
    except BaseException as e:  # noqa
        rec.ev('CloseEnd', t, 4, 'exc', type(e).__name__, 0, str(e)[:200])
    reap(rec)
    kill_all(rec)
    return {'name': 'close-reuse', 'events': rec.events, 'deadlock': False, 'value': r}


def scenario_disconnect(remote):
    rec = Recorder()
    install(rec)
    env = remote.Environment()
    t = 'MainThread'
    op(rec, t, 1, 'Prep', env.prepare)
    op(rec, t, 2, 'Call', lambda: env.eval('return 7'))
    # the client end disappears without a close message
    rec.ev('CloseBegin', t, 3)
    env.conn.close()
    rec.ev('ConnClosed', t, 0, '', '', list(rec.procs)[0] if rec.procs else 0)
    rec.ev('CloseEnd', t, 3, 'ok')
    reap(rec)
    kill_all(rec)
    return {'name': 'disconnect', 'events': rec.events, 'deadlock': False}


def scenario_client_death(remote):
    """A client process launches a server, then dies without closing."""
    rec = Recorder()
    # the server inherits the client's stdout/stderr: the pid travels through a file so that no pipe
    # is kept open by a server that fails to exit
    import tempfile
    fd, pidfile = tempfile.mkstemp(prefix='verif-pid-')
    os.close(fd)
    code = ('import sys, os; sys.path.insert(0, %r)\n'
            'import supp.remote as r\n'
            'e = r.Environment(); e.eval("return 1")\n'
            'open(%r, "w").write(str(e.proc.pid)); os._exit(0)\n') % (os.environ.get('VERIF_REPO', '/repo'), pidfile)
    t = 'child'
    rec.ev('CallBegin', t, 1)
    try:
        p = subprocess.run([sys.executable, '-c', code], stdin=subprocess.DEVNULL, stdout=subprocess.DEVNULL,
                           stderr=subprocess.DEVNULL, timeout=60)
        pid = int(open(pidfile).read().split()[0])
    except Exception as e:  # noqa
        rec.ev('CallEnd', t, 1, 'exc', 'ChildFailed', 0, repr(e)[-200:])
        return {'name': 'client-death', 'events': rec.events, 'deadlock': False}
    finally:
        try:
            os.unlink(pidfile)
        except OSError:
            pass
    rec.ev('Launch', t, 0, '', '', pid)
    rec.ev('Connect', t, 0, 'ok', '', pid)
    rec.ev('CallEnd', t, 1, 'ok')
    rec.ev('CloseBegin', t, 2)
    rec.ev('ConnClosed', t, 0, '', '', pid)   # the process died: its end of the socket is closed
    rec.ev('CloseEnd', t, 2, 'ok')
    deadline = time.time() + EXIT_TIMEOUT
    while time.time() < deadline:
        try:
            os.kill(pid, 0)
            # a zombie re-parented to init is reaped at once; check /proc state
            with open('/proc/%d/stat' % pid) as fd:
                if fd.read().split(')')[-1].split()[0] == 'Z':
                    raise ProcessLookupError()
        except (ProcessLookupError, IOError, OSError):
            rec.ev('ServerExit', '', 0, 'exit', '', pid)
            break
        time.sleep(0.1)
    else:
        try:
            os.kill(pid, 9)
        except OSError:
            pass
    return {'name': 'client-death', 'events': rec.events, 'deadlock': False}


def scenario_launch_failure(remote):
    rec = Recorder()
    install(rec)
    t = 'MainThread'
    env = remote.Environment(executable='/bin/false')
    rec.ev('CallBegin', t, 1)
    try:
        env.eval('return 1')
    except BaseException as e:  # noqa
        for pid in list(rec.procs):
            rec.ev('Connect', t, 0, 'fail', '', pid)
        rec.ev('CallEnd', t, 1, 'exc', type(e).__name__, 0, str(e)[:200])
    else:
        rec.ev('CallEnd', t, 1, 'ok')
    reap(rec)
    # the client object is still usable once the executable is right
    env.executable = sys.executable
    r = op(rec, t, 2, 'Call', lambda: env.eval('return 5'))
    pids = set(rec.procs)
    rec.ev('CloseBegin', t, 3)
    try:
        env.close()
        rec.ev('CloseSent', t, 0, '', '', list(pids)[0] if pids else 0)
        rec.ev('CloseEnd', t, 3, 'ok')
    except BaseException as e:  # noqa
        rec.ev('CloseEnd', t, 3, 'exc', type(e).__name__, 0, str(e)[:200])
    reap(rec)
    kill_all(rec)
    return {'name': 'launch-failure', 'events': rec.events, 'deadlock': False, 'value': r}


def scenario_slow_launch(remote):
    """a server that needs longer than the client waits: the first call reports the failed launch; the process it launched
    must not stay behind when the next call launches another one"""
    import stat
    import tempfile
    rec = Recorder()
    install(rec)
    t = 'MainThread'
    d = tempfile.mkdtemp(prefix='c16slow')
    script = os.path.join(d, 'slowpython')
    with open(script, 'w') as fd:
        fd.write('#!/bin/sh\nsleep 7\nexec %s "$@"\n' % sys.executable)
    os.chmod(script, os.stat(script).st_mode | stat.S_IXUSR)
    env = remote.Environment(executable=script)
    rec.ev('CallBegin', t, 1)
    try:
        env.eval('return 1')
    except BaseException as e:  # noqa
        for pid in list(rec.procs):
            rec.ev('Connect', t, 0, 'fail', '', pid)
        rec.ev('CallEnd', t, 1, 'exc', type(e).__name__, 0, str(e)[:200])
    else:
        rec.ev('CallEnd', t, 1, 'ok')
    global EXIT_TIMEOUT
    saved, EXIT_TIMEOUT = EXIT_TIMEOUT, 4.0
    reap(rec)
    EXIT_TIMEOUT = saved
    env.executable = sys.executable
    r = op(rec, t, 2, 'Call', lambda: env.eval('return 5'))
    connected = set(rec.procs)
    rec.ev('CloseBegin', t, 3)
    try:
        env.close()
        rec.ev('CloseSent', t, 0, '', '', max(connected) if connected else 0)
        rec.ev('CloseEnd', t, 3, 'ok')
    except BaseException as e:  # noqa
        rec.ev('CloseEnd', t, 3, 'exc', type(e).__name__, 0, str(e)[:200])
    saved, EXIT_TIMEOUT = EXIT_TIMEOUT, 4.0
    reap(rec)
    EXIT_TIMEOUT = saved
    kill_all(rec)
    import shutil
    shutil.rmtree(d, ignore_errors=True)
    return {'name': 'slow-launch', 'events': rec.events, 'deadlock': False, 'value': r}


def scenario_concurrent(remote, nthreads=3, with_prepare=True):
    rec = Recorder()
    install(rec)
    env = remote.Environment()
    barrier = threading.Barrier(nthreads)
    results = {}

    def body(i):
        name = threading.current_thread().name
        barrier.wait()
        if with_prepare and i == 0:
            op(rec, name, 1, 'Prep', env.prepare)
        # a complete first call from every thread at once; each must get the reply to its own request
        def call():
            r = env.eval('return %d' % (100 + i))
            if r != 100 + i:
                raise AssertionError('the reply of another call: %r instead of %d' % (r, 100 + i))
            return r
        results[i] = op(rec, name, 2, 'Call', call)
    ths = [threading.Thread(target=body, args=(i,), name='T%d' % i) for i in range(nthreads)]
    for th in ths:
        th.start()
    dead = False
    for th in ths:
        th.join(60)
        dead = dead or th.is_alive()
    pids = set(rec.procs)
    t = 'MainThread'
    if not dead:
        for i in range(nthreads):
            op(rec, t, 10 + i, 'Call', lambda: env.eval('return %d' % i))
        rec.ev('CloseBegin', t, 3)
        try:
            env.close()
            rec.ev('CloseSent', t, 0, '', '', list(pids)[0] if pids else 0)
            rec.ev('CloseEnd', t, 3, 'ok')
        except BaseException as e:  # noqa
            rec.ev('CloseEnd', t, 3, 'exc', type(e).__name__, 0, str(e)[:200])
        reap(rec)
    kill_all(rec)
    return {'name': 'concurrent-%d%s' % (nthreads, '-prepare' if with_prepare else ''), 'events': rec.events,
            'deadlock': dead}


SCENARIOS = {
    'close-reuse': scenario_close_reuse,
    'disconnect': scenario_disconnect,
    'client-death': scenario_client_death,
    'launch-failure': scenario_launch_failure,
    'slow-launch': scenario_slow_launch,
    'concurrent': scenario_concurrent,
    'concurrent-noprep': lambda r: scenario_concurrent(r, 3, False),
}


def main():
    import supp.remote as remote
    name = sys.argv[1]
    out = SCENARIOS[name](remote)
    json.dump(out, sys.stdout, default=str)


if __name__ == '__main__':
    main()
