"""Worker for C07: materialises directory layouts (from ImportSys.tla) under fresh roots and compares the real importlib
with the real supp: module lookup, relative-name resolution, submodule listing.
stdin: {"layouts": [[id, layout, finds]], "base": dir}; stdout: list of cases for ImportCheck.tla"""
import importlib
import importlib.machinery
import importlib.util
import json
import os
import pkgutil
import shutil
import sys

NM = {'a': 'vqa', 'b': 'vqb', 'c': 'vqc', 'd': 'vqd', 'e': 'vqe', 'zz': 'zz9'}
EXTRA = ['os', 'os.path', 'json.decoder', 'json.nosuch', 'sys', 'nosuchtop9', 'collections.abc', '_struct', 'email.mime.text', 'vqa.os',
         # names with an empty component
         'vqa.', 'vqa..vqc', 'vqa.vqc.', '', '.vqa' [1:] + '.', 'os.', 'json', 'json.mine', 'json.tool']


class _Timeout(BaseException):
    pass


def _alarm(signum, frame):
    raise _Timeout()


def write(path, text=''):
    os.makedirs(os.path.dirname(path), exist_ok=True)
    with open(path, 'w') as fd:
        fd.write(text or '# generated\nMARK = 1\n')


def materialise(layout, base):
    roots = []
    files = []         # (path, dotted module name, is_package)
    for ri, spec in enumerate(layout, 1):
        root = os.path.join(base, 'r%d' % ri)
        if spec.get('inpkg'):
            # the source root is a directory inside a package: relative imports must not climb out of the root into it
            write(os.path.join(base, 'vqo%d' % ri, '__init__.py'))
            root = os.path.join(base, 'vqo%d' % ri, 'r%d' % ri)
        os.makedirs(root)
        roots.append(root)
        if spec.get('rinit'):
            # a stray __init__.py in the source root itself: the root is still where top-level names live
            write(os.path.join(root, '__init__.py'))
        a = spec['a']
        if a['k'] == 'module':
            p = os.path.join(root, 'vqa.py')
            write(p)
            files.append((p, 'vqa', False))
        elif a['k'] == 'package':
            p = os.path.join(root, 'vqa', '__init__.py')
            write(p)
            files.append((p, 'vqa', True))
            if spec.get('ext'):
                # a compiled-extension child (an empty file with the platform's extension suffix): only its enumeration is judged
                import importlib.machinery
                write(os.path.join(root, 'vqa', 'vqx' + importlib.machinery.EXTENSION_SUFFIXES[0]))
                # files whose stem is not an identifier although every character is a "word" character
                write(os.path.join(root, 'vqa', 'k\u00b2.py'))
                write(os.path.join(root, 'vqa', '9lives.py'))
            for key, nm in (('c', 'vqc'), ('d', 'vqd')):
                ck = a[key]
                if ck == 'module':
                    p = os.path.join(root, 'vqa', nm + '.py')
                    write(p)
                    files.append((p, 'vqa.' + nm, False))
                elif ck in ('pkg', 'pkg+e'):
                    p = os.path.join(root, 'vqa', nm, '__init__.py')
                    write(p)
                    files.append((p, 'vqa.' + nm, True))
                    if ck == 'pkg+e':
                        p = os.path.join(root, 'vqa', nm, 'vqe.py')
                        write(p)
                        files.append((p, 'vqa.%s.vqe' % nm, False))
        if spec.get('shadow'):
            # a project package named json: it hides the standard library's, with everything below it
            write(os.path.join(root, 'json', '__init__.py'))
            p = os.path.join(root, 'json', 'mine.py')
            write(p)
            files.append((os.path.join(root, 'json', '__init__.py'), 'json', True))
            files.append((p, 'json.mine', False))
        if spec['b'] == 'module':
            p = os.path.join(root, 'vqb.py')
            write(p)
            files.append((p, 'vqb', False))
    return roots, files


def ref_find(name, roots):
    """what importlib would load: (found, file, kind)"""
    parts = name.split('.')
    path = roots + sys.path
    spec = None
    for i in range(len(parts)):
        full = '.'.join(parts[:i + 1])
        if i == 0 and full in sys.builtin_module_names:
            return True, None, 'builtin'
        try:
            spec = importlib.machinery.PathFinder.find_spec(full, path)
        except Exception:
            spec = None
        if spec is None:
            if i == 0:
                try:
                    s2 = importlib.util.find_spec(full)
                except Exception:
                    s2 = None
                if s2 is not None and s2.origin in ('built-in', 'frozen'):
                    return True, None, 'builtin'
            return False, None, ''
        if i < len(parts) - 1:
            if spec.submodule_search_locations is None:
                return False, None, ''
            path = list(spec.submodule_search_locations)
    kind = 'package' if spec.submodule_search_locations is not None else 'module'
    return True, spec.origin, kind


def root_of(path, roots):
    if not path:
        return 0
    for i, r in enumerate(roots, 1):
        if path.startswith(r + os.sep):
            return i
    return 0


def main():
    from supp.project import Project
    from supp.module import SourceModule
    data = json.load(sys.stdin)
    out = []
    for cid, layout, finds in data['layouts']:
        base = os.path.join(data['base'], 'L%d' % cid)
        shutil.rmtree(base, ignore_errors=True)
        os.makedirs(base)
        roots, files = materialise(layout, base)
        importlib.invalidate_caches()
        project = Project([r + os.sep for r in roots] if layout[0].get('slash') else roots)
        lookups = []
        specs = {'.'.join(NM[x] for x in f['name']): f['res'] for f in finds}
        for name in list(specs) + EXTRA:
            found, file_, kind = ref_find(name, roots)
            if not found and name in sys.modules:
                # already imported under that name (os.path is posixpath): import_module(name) succeeds
                found, file_, kind = True, None, 'builtin'
            ref = {'found': found, 'root': root_of(file_, roots), 'kind': kind if root_of(file_, roots) else ('other' if found else ''), 'file': file_ or ''}
            impl = {'found': False, 'root': 0, 'kind': '', 'file': '', 'exc': ''}
            try:
                m = project.get_module(name)
                impl['found'] = True
                if isinstance(m, SourceModule):
                    impl['file'] = m.filename
                    impl['root'] = root_of(m.filename, roots)
                    impl['kind'] = ('package' if os.path.basename(m.filename) == '__init__.py' else 'module') if impl['root'] else 'other'
                else:
                    impl['kind'] = 'other'
                    impl['file'] = ref['file']        # compiled / builtin modules are compared by existence only
            except ImportError:
                impl['exc'] = 'ImportError'
            except Exception as e:  # noqa
                impl['exc'] = type(e).__name__
            if found and not ref['root'] and impl['found'] and impl['kind'] == 'other' and not isinstance(m, SourceModule):
                ref['kind'] = 'other'
            if found and kind == 'builtin':
                # builtin and frozen modules have no file: compared only when already loaded (property text)
                if name not in sys.modules:
                    continue
                ref['kind'] = 'other'
            if found and ref['root'] == 0:
                ref['kind'] = 'other'
                if impl['found'] and impl['kind'] in ('module', 'package', 'other'):
                    impl['kind'] = 'other'
            sp = specs.get(name)
            spec = {'found': bool(sp and sp['found']), 'root': sp['root'] if sp else 0, 'kind': sp['kind'] if sp else ''}
            lookups.append({'name': name, 'spec': spec, 'hasspec': sp is not None, 'ref': ref, 'impl': impl})
        # relative names from every file of the layout
        rels = []
        for path, dotted, is_pkg in files:
            package = dotted if is_pkg else dotted.rpartition('.')[0]
            depth = dotted.count('.') + 1
            for level in range(1, depth + 2):
                for tail in ('', 'vqc', 'zz9.deep'):
                    spec = '.' * level + tail
                    try:
                        ref = importlib.util.resolve_name(spec, package)
                    except ImportError:
                        ref = 'ImportError'
                    except ValueError:      # older Pythons
                        ref = 'ImportError'
                    try:
                        impl = project.norm_package(spec, path)
                    except ImportError:
                        impl = 'ImportError'
                    except Exception as e:  # noqa
                        impl = 'raises ' + type(e).__name__
                    rels.append({'ref': ref, 'impl': impl, 'spec': spec, 'file': path[len(base) + 1:]})
            if is_pkg and cid % 40 == 0 and not any(r['file'].startswith('cwd:') for r in rels):
                # the same file named relative to the current directory (an editor started inside the package); one probe in a
                # few layouts only: a library that loops here costs the whole time limit
                import signal
                cwd = os.getcwd()
                os.chdir(os.path.dirname(path))
                signal.signal(signal.SIGALRM, _alarm)
                signal.alarm(5)
                try:
                    impl = project.norm_package('.vqc', '__init__.py')
                except ImportError:
                    impl = 'ImportError'
                except BaseException as e:  # noqa
                    impl = 'raises ' + type(e).__name__
                finally:
                    signal.alarm(0)
                    os.chdir(cwd)
                rels.append({'ref': importlib.util.resolve_name('.vqc', package), 'impl': impl, 'spec': '.vqc', 'file': 'cwd:' + path[len(base) + 1:]})
        # children of the package the import system finds
        kids = []
        for pkg in ('vqa', 'vqa.vqc', 'vqa.vqd', 'vqb', 'json'):
            found, file_, kind = ref_find(pkg, roots)
            if found and kind == 'package':
                # (names that are not identifiers cannot be written in an import statement: C12 forbids proposing them)
                ref_children = {m.name for m in pkgutil.iter_modules([os.path.dirname(file_)]) if m.name.isidentifier()}
            else:
                # a plain module, or nothing importable under that name: nothing below it can be imported
                # (these layouts have no namespace directories)
                ref_children = set()
            try:
                impl_children = set(project.list_packages(pkg))
            except Exception as e:  # noqa
                kids.append({'missing': -1, 'extra': -1, 'pkg': pkg, 'exc': type(e).__name__})
                continue
            loaded = {k[len(pkg) + 1:].partition('.')[0] for k in sys.modules if k.startswith(pkg + '.')}
            missing = sorted(ref_children - impl_children)
            extra = sorted(x for x in impl_children - ref_children - loaded)
            kids.append({'missing': len(missing), 'extra': len(extra), 'pkg': pkg, 'names': [missing, extra]})
        out.append({'id': cid, 'lookups': lookups, 'rels': rels, 'kids': kids, 'layout': layout})
        shutil.rmtree(base, ignore_errors=True)
    json.dump(out, sys.stdout)


if __name__ == '__main__':
    main()
