"""Reader for TLA+ values as TLC prints them (states in -dump dot files, in
counterexamples and in -simulate trace files), plus a reader of the labelled
state graph TLC writes with `-dump dot,actionlabels`.

Value mapping: records / functions -> dict, tuples / sequences -> list,
sets -> frozenset-like sorted list wrapped in Set, strings -> str, ints -> int,
TRUE/FALSE -> bool.
"""
import re


class TSet(tuple):
    """A TLA+ set (kept as a tuple of elements in printed order)."""
    def __repr__(self):
        return 'TSet(%s)' % (list(self),)


_tok = re.compile(r'\s*(<<|>>|\|->|:>|@@|\[|\]|\{|\}|\(|\)|,|"(?:[^"\\]|\\.)*"|-?\d+|[A-Za-z_][A-Za-z0-9_]*)')


def _tokens(s):
    pos = 0
    out = []
    n = len(s)
    while pos < n:
        m = _tok.match(s, pos)
        if not m:
            if s[pos:].strip() == '':
                break
            raise ValueError('cannot tokenise TLA value at %r' % s[pos:pos + 30])
        out.append(m.group(1))
        pos = m.end()
    return out


def parse(s):
    toks = _tokens(s)
    v, i = _parse(toks, 0)
    if i != len(toks):
        raise ValueError('trailing tokens in TLA value: %r' % toks[i:i + 5])
    return v


def _atom(t):
    if t[0] == '"':
        return t[1:-1].replace('\\"', '"').replace('\\\\', '\\')
    if t == 'TRUE':
        return True
    if t == 'FALSE':
        return False
    if re.match(r'-?\d+$', t):
        return int(t)
    return t  # model value / identifier


def _parse(toks, i):
    t = toks[i]
    if t == '<<':
        out = []
        i += 1
        while toks[i] != '>>':
            v, i = _parse(toks, i)
            out.append(v)
            if toks[i] == ',':
                i += 1
        return out, i + 1
    if t == '{':
        out = []
        i += 1
        while toks[i] != '}':
            v, i = _parse(toks, i)
            out.append(v)
            if toks[i] == ',':
                i += 1
        return TSet(out), i + 1
    if t == '[':
        out = {}
        i += 1
        while toks[i] != ']':
            k = toks[i]
            assert toks[i + 1] == '|->', toks[i:i + 3]
            v, i = _parse(toks, i + 2)
            out[k] = v
            if toks[i] == ',':
                i += 1
        return out, i + 1
    if t == '(':
        # (a :> x @@ b :> y)
        out = {}
        i += 1
        while toks[i] != ')':
            k, i = _parse(toks, i)
            assert toks[i] == ':>', toks[i]
            v, i = _parse(toks, i + 1)
            out[k] = v
            if toks[i] == '@@':
                i += 1
        return out, i + 1
    v = _atom(t)
    i += 1
    return v, i


def parse_state(text):
    """'/\\ a = 1\n/\\ b = <<..>>' -> {'a': 1, 'b': [...]}"""
    st = {}
    for part in re.split(r'(?:^|\n)\s*/\\ ', text):
        part = part.strip()
        if not part:
            continue
        name, _, val = part.partition(' = ')
        st[name.strip()] = parse(val)
    return st


class Graph(object):
    def __init__(self):
        self.state = {}    # node id -> raw label text (parsed lazily)
        self.init = []
        self.out = {}      # node id -> list of (action, args, target)
        self.nedges = 0
        self._parsed = {}

    def get(self, nid):
        st = self._parsed.get(nid)
        if st is None:
            st = self._parsed[nid] = parse_state(self.state[nid])
        return st


_node = re.compile(r'^(-?\d+) \[label="((?:[^"\\]|\\.)*)"(,style = filled)?')
_edge = re.compile(r'^(-?\d+) -> (-?\d+) \[label="([^"\\]*(?:\\.[^"\\]*)*)"')


def read_dot(path):
    g = Graph()
    with open(path) as fd:
        for line in fd:
            line = line.rstrip('\n')
            m = _edge.match(line)
            if m:
                u, v, lab = m.group(1), m.group(2), m.group(3).replace('\\"', '"')
                am = re.match(r'(\w+)(?:\((.*)\))?$', lab)
                act = am.group(1)
                args = parse('<<' + am.group(2) + '>>') if am.group(2) else []
                g.out.setdefault(u, []).append((act, args, v))
                g.nedges += 1
                continue
            m = _node.match(line)
            if m:
                text = m.group(2).replace('\\n', '\n').replace('\\"', '"').replace('\\\\', '\\')
                g.state[m.group(1)] = text
                if m.group(3):
                    g.init.append(m.group(1))
    return g


def edge_cover(g, rng, max_paths=None, max_len=400):
    """Paths (lists of (action, args, node)) from initial states that together
    traverse every edge of g at least once.  Greedy: walk preferring uncovered
    edges; when stuck, jump (via a BFS shortest path) to the nearest state with
    an uncovered outgoing edge."""
    from collections import deque
    # BFS tree from the initial states
    parent = {}
    dq = deque()
    for i in g.init:
        parent[i] = None
        dq.append(i)
    while dq:
        u = dq.popleft()
        for (a, args, v) in g.out.get(u, ()):
            if v not in parent:
                parent[v] = (u, a, args)
                dq.append(v)
    covered = set()
    paths = []
    pending = [(u, k) for u in g.out for k in range(len(g.out[u])) if u in parent]
    rng.shuffle(pending)
    pi = 0

    def prefix(u):
        p = []
        while parent[u] is not None:
            pu, a, args = parent[u]
            p.append((a, args, u))
            u = pu
        p.reverse()
        return u, p

    while pi < len(pending):
        u, k = pending[pi]
        pi += 1
        if (u, k) in covered:
            continue
        root, path = prefix(u)
        # mark covered along the prefix
        cur = root
        for (a, args, v) in path:
            for kk, e in enumerate(g.out[cur]):
                if e[2] == v and e[0] == a and e[1] == args:
                    covered.add((cur, kk))
                    break
            cur = v
        a, args, v = g.out[u][k]
        covered.add((u, k))
        path.append((a, args, v))
        cur = v
        while len(path) < max_len:
            outs = g.out.get(cur)
            if not outs:
                break
            fresh = [kk for kk in range(len(outs)) if (cur, kk) not in covered]
            kk = rng.choice(fresh) if fresh else rng.randrange(len(outs))
            covered.add((cur, kk))
            a, args, v = outs[kk]
            path.append((a, args, v))
            cur = v
        paths.append((root, path))
        if max_paths and len(paths) >= max_paths:
            break
    return paths, len(covered)


def read_sim_trace(path):
    """One -simulate trace file -> list of (action name or None, state dict)."""
    text = open(path).read()
    out = []
    for m in re.finditer(r'\\\* <(\w+)[^>]*>\s*\nSTATE_\d+ ==\s*\n(.*?)(?=\n\n|\n\\\*|\n====|\Z)', text, re.S):
        out.append((m.group(1), parse_state(m.group(2))))
    return out
