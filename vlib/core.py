"""Common machinery of the /verif checks: TLC runner (java + SerialGC, one worker
per JVM, sharding over processes), verdict-line protocol, evidence writer,
known-findings handling, replay files.

Verdict protocol (DESIGN Appendix E): a trace/judge specification prints, through
PrintT(ToJson(<<...>>)), JSON arrays whose first element is a tag:
  ["VFAIL", property, case id, clause, detail]   one per failing case
  ["VDONE", property, cases, consumed, failed]    totals from the POSTCONDITION
  ["INFO",  ...]                                  anything else worth keeping
A TLC run without a VDONE line (when one is expected) is a machinery failure.
"""
import json
import os
import re
import shutil
import subprocess
import sys
import tempfile
import time
from concurrent.futures import ThreadPoolExecutor

VERIF = os.path.dirname(os.path.dirname(os.path.abspath(__file__)))
REPO = os.environ.get('VERIF_REPO', '/repo')
SPEC = os.path.join(VERIF, 'spec')
PY = os.environ.get('VERIF_PYTHON', '/venv/bin/python')
JAR = '/opt/veriftools/tla/tla2tools.jar:/opt/veriftools/tla/CommunityModules-deps.jar'
NCPU = min(16, os.cpu_count() or 1)


class MachineryFailure(Exception):
    pass


def seed():
    try:
        return int(os.environ.get('VERIF_SEED', '0'))
    except ValueError:
        return 0


def scratch(prefix='verif-'):
    return tempfile.mkdtemp(prefix=prefix)


class TLCResult(object):
    def __init__(self, out, rc):
        self.out = out
        self.rc = rc
        self.generated = 0
        self.distinct = 0
        self.records = []      # parsed JSON verdict lines
        self.invariant = None  # name of a violated invariant / property, if any
        self.deadlock = False
        self.error = None
        m = None
        for m in re.finditer(r'(\d+) states generated, (\d+) distinct states found', out):
            pass
        if m:
            self.generated, self.distinct = int(m.group(1)), int(m.group(2))
        m = re.search(r'Invariant (\S+) is violated', out)
        if m:
            self.invariant = m.group(1)
        m = re.search(r'Action property (\S+) is violated', out)
        if m:
            self.invariant = m.group(1)
        if 'Temporal properties were violated' in out:
            self.invariant = self.invariant or 'temporal'
        if 'Deadlock reached' in out:
            self.deadlock = True
        for line in out.split('\n'):
            line = line.strip()
            if line.startswith('"[') or line.startswith('"{'):
                try:
                    self.records.append(json.loads(json.loads(line)))
                except ValueError:
                    pass
        if rc != 0 and not self.invariant and not self.deadlock:
            m = re.search(r'(Error: .*|.*Exception.*|.*evaluating the .*)', out)
            self.error = m.group(1) if m else 'TLC exit %d' % rc
        if 'The postcondition' in out and 'violated' in out or 'is FALSE' in out:
            self.post_failed = True
        else:
            self.post_failed = False

    def tagged(self, tag):
        return [r for r in self.records if isinstance(r, list) and r and r[0] == tag]


def tlc(module, cfg=None, env=None, workdir=None, simulate=None, depth=None,
        extra=(), timeout=3600, xmx='3g', tseed=None, coverage=False, deadlock=None):
    """Run TLC on /verif/spec/<module>.tla with one worker. Returns TLCResult."""
    own = workdir is None
    wd = workdir or scratch('tlc-')
    try:
        # java.io.tmpdir inside the scratch directory: TLC leaves an empty tlc-<n> directory per run in the temp dir
        cmd = ['java', '-XX:+UseSerialGC', '-Xmx' + xmx, '-Xss64m', '-Djava.io.tmpdir=' + wd, '-cp', JAR, 'tlc2.TLC',
               '-workers', '1', '-metadir', os.path.join(wd, 'meta-%d-%d' % (os.getpid(), time.monotonic_ns())),
               '-noGenerateSpecTE']
        if cfg:
            cmd += ['-config', cfg if os.path.isabs(cfg) else os.path.join(SPEC, cfg)]
        if simulate:
            cmd += ['-simulate', simulate]
        if depth:
            cmd += ['-depth', str(depth)]
        if tseed is not None:
            cmd += ['-seed', str(tseed)]
        if coverage:
            cmd += ['-coverage', '1']
        if deadlock is False:
            cmd += ['-deadlock']
        cmd += list(extra)
        cmd.append(module if os.path.isabs(module) else os.path.join(SPEC, module + '.tla'))
        e = dict(os.environ)
        e.pop('JAVA_TOOL_OPTIONS', None)
        if env:
            e.update(env)
        try:
            p = subprocess.run(cmd, cwd=SPEC, env=e, stdout=subprocess.PIPE, stderr=subprocess.STDOUT,
                               timeout=timeout, universal_newlines=True, errors='replace')
        except subprocess.TimeoutExpired:
            raise MachineryFailure('TLC timeout on %s' % module)
        return TLCResult(p.stdout, p.returncode)
    finally:
        if own:
            shutil.rmtree(wd, ignore_errors=True)


def tlc_cases(module, cfg, cases, prop, env_name='VERIF_CASES', nshards=None, workdir=None,
              expect_done=True, timeout=3600, xmx='3g', extra_env=None):
    """Shard `cases` (list of JSON-able dicts with an integer 'id') over TLC
    processes. Returns (results, fails) where fails is the list of VFAIL records."""
    own = workdir is None
    wd = workdir or scratch('tlcc-')
    try:
        if not cases:
            return [], []
        n = nshards or min(NCPU, max(1, len(cases) // 8))
        chunks = [cases[i::n] for i in range(n)]
        chunks = [c for c in chunks if c]
        files = []
        for i, c in enumerate(chunks):
            f = os.path.join(wd, 'cases-%d.json' % i)
            with open(f, 'w') as fd:
                json.dump(c, fd)
            files.append(f)

        def one(f):
            e = {env_name: f}
            if extra_env:
                e.update(extra_env)
            return tlc(module, cfg, env=e, workdir=wd, timeout=timeout, xmx=xmx)
        with ThreadPoolExecutor(max_workers=len(files)) as ex:
            results = list(ex.map(one, files))
        fails = []
        for r, c in zip(results, chunks):
            if r.error:
                raise MachineryFailure('TLC failed on %s: %s\n%s' % (module, r.error, r.out[-3000:]))
            done = r.tagged('VDONE')
            if expect_done:
                if not done:
                    raise MachineryFailure('no VDONE from %s\n%s' % (module, r.out[-3000:]))
                d = done[-1]
                if d[2] != len(c) or d[3] != d[2]:
                    raise MachineryFailure('%s consumed %s of %s cases (shipped %d)\n%s' % (
                        module, d[3], d[2], len(c), r.out[-2000:]))
            fails.extend(r.tagged('VFAIL'))
        return results, fails
    finally:
        if own:
            shutil.rmtree(wd, ignore_errors=True)


def codes(s):
    """Text as a sequence of code points (TLC strings cannot be indexed)."""
    return [ord(ch) for ch in s]


# ---------------------------------------------------------------------------
# known findings

def load_findings(prop):
    path = os.path.join(VERIF, 'known_findings.json')
    try:
        data = json.load(open(path))
    except (IOError, OSError):
        return []
    return [f for f in data.get('findings', []) if f.get('property') == prop and f.get('status') == 'open']


class Check(object):
    """Collects what one check run did; finish() writes the evidence file,
    prints KNOWN-FINDING / VIOLATION lines and returns the exit code."""

    def __init__(self, prop, tier, level='model_checking'):
        self.prop = prop
        self.tier = tier
        self.level = level
        self.t0 = time.time()
        self.states = 0
        self.transitions = 0
        self.traces = 0
        self.evaluations = 0
        self.nontrivial = set()
        self.samples = []
        self.rule = ''
        self.exhaustive = None
        self.assumptions = []
        self.extra = {}
        self.violations = []     # (signature, what, replay payload)
        self.known_hit = {}      # finding id -> what
        self.findings = load_findings(prop)
        self.drift = 0
        self.notes = []

    def add_tlc(self, r):
        rs = r if isinstance(r, (list, tuple)) else [r]
        for x in rs:
            self.states += x.distinct
            self.transitions += x.generated

    def sample(self, s, limit=6):
        if len(self.samples) < limit:
            self.samples.append(s)

    def match_finding(self, signature):
        for f in self.findings:
            if f.get('signature') == signature:
                return f
        return None

    def violation(self, signature, what, payload):
        """signature: canonical JSON-able identification of the failing input."""
        f = self.match_finding(signature)
        if f:
            self.known_hit[f['id']] = f.get('what', what)
            return
        for s, _, _ in self.violations:
            if s == signature:
                return
        self.violations.append((signature, what, payload))

    def known(self, fid, what):
        self.known_hit[fid] = what

    def finish(self):
        wall = time.time() - self.t0
        cov = {
            'states': int(self.states), 'transitions': int(self.transitions),
            'traces_validated_against_impl': int(self.traces),
            'evaluations': int(self.evaluations),
            'distinct_nontrivial': len(self.nontrivial) if isinstance(self.nontrivial, (set, dict)) else int(self.nontrivial),
            'rule': self.rule,
            'samples': self.samples or ['(none)'],
            'model_drift': self.drift,
        }
        if self.exhaustive is not None:
            cov['exhaustive'] = bool(self.exhaustive)
        cov.update(self.extra)
        ev = {
            'property_id': self.prop, 'tier': self.tier, 'seed': seed(), 'level': self.level,
            'coverage': cov, 'assumptions': self.assumptions, 'wall_s': round(wall, 2),
            'violations': len(self.violations),
            'known_findings_hit': sorted(self.known_hit),
        }
        # runs against a scratch tree (seeded breakages) must not overwrite the evidence of /repo: VERIF_OUT redirects
        outdir = os.environ.get('VERIF_OUT') or VERIF
        os.makedirs(os.path.join(outdir, 'evidence'), exist_ok=True)
        tmp = os.path.join(outdir, 'evidence', '.%s.json.tmp' % self.prop)
        with open(tmp, 'w') as fd:
            json.dump(ev, fd, indent=1, sort_keys=True, default=str)
        os.replace(tmp, os.path.join(outdir, 'evidence', '%s.json' % self.prop))
        for fid, what in sorted(self.known_hit.items()):
            print('KNOWN-FINDING: property=%s %s [%s]' % (self.prop, what, fid))
        if self.drift:
            print('MODEL-DRIFT property=%s steps=%d (information only)' % (self.prop, self.drift))
        for n in self.notes:
            print('NOTE %s' % n)
        rc = 0
        rdir = os.path.join(outdir, 'replays', self.prop)
        if os.path.isdir(rdir) and not os.environ.get('VERIF_KEEP_REPLAYS'):
            # replay files of an earlier run with the same tier and seed are stale
            for f in os.listdir(rdir):
                if f.startswith('%s-%d-' % (self.tier, seed())):
                    try:
                        os.unlink(os.path.join(rdir, f))
                    except OSError:
                        pass
        if self.violations:
            os.makedirs(rdir, exist_ok=True)
            for i, (sig, what, payload) in enumerate(self.violations[:20]):
                path = os.path.join(rdir, '%s-%d-%d.json' % (self.tier, seed(), i))
                with open(path, 'w') as fd:
                    json.dump({'property': self.prop, 'what': what, 'signature': sig, 'case': payload,
                               'rerun': 'bin/vcheck %s --replay %s' % (self.prop, path)}, fd, indent=1, default=str)
                print('VIOLATION property=%s replay=%s' % (self.prop, path))
                print('  %s' % what)
            rc = 1
        print('%s %s: states=%d transitions=%d traces=%d evaluations=%d nontrivial=%d violations=%d wall=%.1fs' % (
            self.prop, self.tier, self.states, self.transitions, self.traces, self.evaluations,
            cov['distinct_nontrivial'], len(self.violations), wall))
        sys.stdout.flush()
        return rc


def run_repo_python(code_or_args, inp=None, env=None, timeout=600, cwd=None):
    """Run a fresh interpreter with /repo's working tree importable."""
    e = dict(os.environ)
    e['PYTHONPATH'] = REPO + os.pathsep + VERIF
    e['PYTHONDONTWRITEBYTECODE'] = '1'
    e.setdefault('PYTHONHASHSEED', '0')
    if env:
        e.update(env)
    args = [PY] + list(code_or_args)
    p = subprocess.run(args, input=inp, env=e, stdout=subprocess.PIPE, stderr=subprocess.PIPE,
                       timeout=timeout, cwd=cwd)
    return p


def use_repo():
    """Make `import supp` resolve to /repo's working tree in this process."""
    sys.dont_write_bytecode = True
    if REPO not in sys.path:
        sys.path.insert(0, REPO)
    os.environ.setdefault('SUPP_VERIF', '1')
