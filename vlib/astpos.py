"""ast.parse with CHARACTER columns: the parser reports col_offset / end_col_offset in UTF-8 bytes, cursor positions and the
positions supp reports count characters (lines split as the tokenizer does).  Identity on ASCII-only lines."""
import ast
import re

LINESEP = re.compile(r'\r\n|\r|\n')


def parse(source, *args, **kw):
    tree = ast.parse(source, *args, **kw)
    if isinstance(source, str) and not source.isascii():
        wide = {}
        for i, line in enumerate(LINESEP.split(source)):
            data = line.encode('utf-8', 'surrogatepass')
            if len(data) != len(line):
                wide[i + 1] = data
        for node in ast.walk(tree):
            for la, ca in (('lineno', 'col_offset'), ('end_lineno', 'end_col_offset')):
                data = wide.get(getattr(node, la, None))
                col = getattr(node, ca, None)
                if data is not None and col:
                    setattr(node, ca, len(data[:col].decode('utf-8', 'replace')))
    return tree
