"""vcheck entry point: dispatches to vlib.checks.<id>.run(tier, replay)."""
import argparse
import importlib
import os
import sys
import traceback


def main():
    ap = argparse.ArgumentParser()
    ap.add_argument('prop')
    ap.add_argument('--tier', default=os.environ.get('VERIF_TIER', 'quick'), choices=['quick', 'thorough'])
    ap.add_argument('--replay', default=None)
    a = ap.parse_args()
    prop = a.prop.upper()
    from . import core
    try:
        mod = importlib.import_module('vlib.checks.%s' % prop.lower())
        rc = mod.run(a.tier, a.replay)
    except core.MachineryFailure as e:
        print('MACHINERY-FAILURE property=%s %s' % (prop, e))
        sys.exit(2)
    except Exception:
        traceback.print_exc()
        print('MACHINERY-FAILURE property=%s unexpected exception in the checker' % prop)
        sys.exit(2)
    sys.exit(rc)


if __name__ == '__main__':
    main()
